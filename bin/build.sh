#!/bin/bash
# Build the simulator binary for the current working tree of the repository
# (DESIGN.md 8).  Usage: build.sh [repo-dir]  -> prints the path of crsim.test
# Exit 2 on any build trouble.
set -u
VERIF="$(cd "$(dirname "$0")/.." && pwd)"
REPO="${1:-${VERIF_REPO:-/repo}}"
export GOFLAGS=-mod=mod GOPROXY=off GOSUMDB=off GOTOOLCHAIN=local
GO=go1.26.8
CACHE="$VERIF/.cache"
mkdir -p "$CACHE/bin" "$CACHE/build"
fail() { echo "build: $*" >&2; exit 2; }

# framework pieces (rebuilt only when their sources change)
fw_hash=$( (cd "$VERIF" && find sim simgen rtpatch -type f \( -name '*.go' -o -name '*.py' -o -name 'go.mod.tmpl' \) | LC_ALL=C sort | xargs sha256sum) | sha256sum | cut -c1-16)
if [ ! -x "$CACHE/bin/simgen-$fw_hash" ]; then
  (cd "$VERIF/simgen" && $GO build -o "$CACHE/bin/simgen-$fw_hash" .) >&2 || fail "simgen does not build"
fi
if [ ! -f "$CACHE/rtpatch/overlay.json" ] || [ "$VERIF/rtpatch/build.py" -nt "$CACHE/rtpatch/overlay.json" ]; then
  python3 "$VERIF/rtpatch/build.py" "$CACHE/rtpatch" >&2 || fail "runtime overlay"
fi

repo_hash=$( (cd "$REPO" && find . -path ./.git -prune -o -type f \( -name '*.go' -o -name 'go.mod' -o -name 'go.sum' \) -print | grep -v '^./ui/web/' | LC_ALL=C sort | xargs sha256sum) | sha256sum | cut -c1-16)
key="$repo_hash-$fw_hash"
RACEFLAG=""
if [ -n "${CRSIM_RACE:-}" ]; then key="$key-race"; RACEFLAG="-race"; fi
out="$CACHE/build/$key"
if [ -x "$out/crsim.test" ]; then echo "$out/crsim.test"; exit 0; fi

exec 9>"$CACHE/build.lock"
flock 9
if [ -x "$out/crsim.test" ]; then echo "$out/crsim.test"; exit 0; fi
scratch=$(mktemp -d "${TMPDIR:-/tmp}/crsim-build-XXXXXX") || fail mktemp
trap 'rm -rf "$scratch"' EXIT
"$CACHE/bin/simgen-$fw_hash" "$REPO" "$scratch/repo" >&2 || fail "simgen refused the tree"
for d in "$VERIF"/sim/access/*/; do
  mkdir -p "$scratch/repo/$(basename "$d")"
  p=$(basename "$d")
  cp "$d"/*.go "$scratch/repo/$p/" || fail "accessor $p"
done
cp -r "$VERIF/sim" "$scratch/sim" || fail "copy sim"
rm -rf "$scratch/sim/access"
python3 - "$REPO/go.mod" "$scratch/sim/go.mod" <<'PY' || fail "go.mod"
import re,sys
src=open(sys.argv[1]).read()
reqs=re.search(r'require \((.*?)\)', src, re.S).group(1)
repl=[l for l in src.splitlines() if l.startswith('replace ')]
out="module crsim\n\ngo 1.26\n\nrequire (\n\tgithub.com/grafana/carbon-relay-ng v0.0.0\n\tgithub.com/anishathalye/porcupine v1.3.0\n"+reqs+")\n\nreplace github.com/grafana/carbon-relay-ng => ../repo\n"+"\n".join(repl)+"\n"
open(sys.argv[2],'w').write(out)
PY
cp "$REPO/go.sum" "$scratch/sim/go.sum"
[ -f "$VERIF/sim/go.sum.extra" ] && cat "$VERIF/sim/go.sum.extra" >> "$scratch/sim/go.sum"
mkdir -p "$out"
(cd "$scratch/sim" && $GO test -c $RACEFLAG -trimpath -overlay "$CACHE/rtpatch/overlay.json" -o "$out/crsim.test.tmp" . ) >&2 || { rm -rf "$out"; fail "simulator does not build against this tree"; }
mv "$out/crsim.test.tmp" "$out/crsim.test"
echo "$repo_hash" > "$out/repo_hash"
# keep the cache small: drop all but the 6 most recent builds
ls -1dt "$CACHE"/build/*/ 2>/dev/null | tail -n +25 | xargs -r rm -rf
echo "$out/crsim.test"
