#!/usr/bin/env python3
"""bin/collect_seeds.py <verify.txt> <matrix.txt> <srcroot>... -- file the sub-agents' property-breaking changes under seeded/.

verify.txt  lines of bin/verify_seed.sh   (SEED <id> applies=.. builds=.. suite_passes=.. demo_fails_with=.. demo_passes_without=..)
matrix.txt  lines of bin/mutants.sh       (MUTANT <tag> check=<P> exit=<rc> class=... first: ...)
srcroot     e.g. /tmp/seedwork (wave 1: ids C05-a), /tmp/seedwork2=w2 (ids C05-w2a)
Adapted patches (same idea re-based on the repaired tree) are passed as ID=path after '--adapt'.
Writes seeded/<id>/{patch.diff,demo_test.go,meta.json} and seeded/RESULTS.md.  Nothing here is read by any check.
"""
import json, os, re, shutil, sys

VERIF = os.path.dirname(os.path.dirname(os.path.abspath(__file__)))
OUT = os.path.join(VERIF, "seeded")


def main():
    args = sys.argv[1:]
    verify, matrix = args[0], args[1]
    roots, adapt, notes = [], {}, {}
    mode = "roots"
    for a in args[2:]:
        if a == "--adapt":
            mode = "adapt"
            continue
        if a == "--note":
            mode = "note"
            continue
        if mode == "roots":
            r, _, suffix = a.partition("=")
            roots.append((r, suffix))
        elif mode == "adapt":
            k, _, v = a.partition("=")
            adapt[k] = v
        else:
            k, _, v = a.partition("=")
            notes[k] = v
    ver = {}
    for ln in open(verify):
        m = re.match(r"SEED (\S+) (.*)", ln.strip())
        if m:
            ver[m.group(1)] = dict(kv.split("=") for kv in m.group(2).split())
    runs = {}
    for ln in open(matrix):
        m = re.match(r"MUTANT (\S+) check=(\S+) exit=(\d+)\s*(.*)", ln.strip())
        if not m:
            continue
        tag, chk, rc, rest = m.groups()
        tag = re.sub(r"^_tmp_adapt_", "", tag).replace(".diff", "")
        tag = re.sub(r"^_tmp_seedwork2_", "", tag)
        cls = re.search(r"class=(\S+)", rest)
        first = rest.split("first:", 1)[1].strip() if "first:" in rest else ""
        runs.setdefault(tag, []).append({"check": chk, "tier": "quick", "exit": int(rc), "class": cls.group(1) if cls else None, "first_violation": first[:220]})
    os.makedirs(OUT, exist_ok=True)
    rows = []
    for root, suffix in roots:
        for prop in sorted(os.listdir(root)):
            od = os.path.join(root, prop, "out")
            if not os.path.isdir(od):
                continue
            for v in sorted(os.listdir(od)):
                src = os.path.join(od, v)
                if not os.path.exists(os.path.join(src, "patch.diff")):
                    continue
                sid = f"{prop}-{suffix}{v}"
                dst = os.path.join(OUT, sid)
                os.makedirs(dst, exist_ok=True)
                shutil.copy(os.path.join(src, "patch.diff"), os.path.join(dst, "patch.diff"))
                for f in os.listdir(src):
                    if f.endswith("_test.go"):
                        shutil.copy(os.path.join(src, f), os.path.join(dst, f))
                try:
                    meta = json.load(open(os.path.join(src, "meta.json")))
                except Exception as e:
                    meta = {"property": prop, "variant": v, "summary": f"(agent meta unreadable: {e})"}
                meta["id"] = sid
                meta["agent_claims"] = meta.pop("verified", None)
                if "demo_cmd" in meta:
                    meta["demo_cmd"] = re.sub(r"/tmp/seedwork2?/C\d\d/out/\w+/", f"/verif/seeded/{sid}/", meta["demo_cmd"])
                meta["confirmed_by_us"] = ver.get(sid, ver.get(f"{prop}-{v}"))
                key = sid
                if sid in adapt:
                    shutil.copy(adapt[sid], os.path.join(dst, "patch_rebased.diff"))
                    meta["rebased"] = "patch.diff was written against the tree before the fix: commits; patch_rebased.diff is the same change on the repaired tree and is what the checks were run against"
                    key = os.path.basename(adapt[sid]).replace(".diff", "")
                rr = runs.get(key, []) + (runs.get(sid, []) if key != sid else []) + runs.get(f"{prop}-{v}" if not suffix else "\0", [])
                seen, uniq = set(), []
                for r in rr:
                    k = (r["check"], r["exit"], r["class"])
                    if k not in seen:
                        seen.add(k)
                        uniq.append(r)
                hit = {r["check"] for r in uniq if r["exit"] == 1}
                for r in uniq:
                    if r["exit"] == 0 and r["check"] in hit:
                        r["tier"] = "quick, plain pass only (VERIF_NO_RACE_PASS=1): the race pass of the same check reports it"
                meta["checks_run"] = uniq
                caught = [r for r in uniq if r["exit"] == 1]
                if sid in notes:
                    meta["note"] = notes[sid]
                if caught:
                    meta["status"] = "detected"
                elif sid in notes:
                    meta["status"] = "not-applicable-on-repaired-tree"
                elif uniq:
                    meta["status"] = "missed"
                else:
                    meta["status"] = "not-run"
                meta["how_run"] = "bin/mutant.sh <patch> <check> quick: the check is run, unchanged, against a scratch copy of /repo's tracked files with the patch applied (VERIF_REPO), evidence and replays redirected; /repo is never touched"
                json.dump(meta, open(os.path.join(dst, "meta.json"), "w"), indent=1)
                rows.append(meta)
    with open(os.path.join(OUT, "RESULTS.md"), "w") as f:
        f.write("# Seeded property-breaking changes and which check catches them\n\n")
        f.write("Each change was written by a sub-agent that saw only the property text and a scratch worktree; each compiles,\n"
                "passes the repository's own test suite, and comes with a demonstration test that fails with it and passes without it\n"
                "(`confirmed_by_us` in meta.json is our own re-run of that, `bin/verify_seed.sh`).  Checks were run with `bin/mutant.sh`.\n\n")
        f.write("| id | breaks | change | status | caught by (class) |\n|---|---|---|---|---|\n")
        for m in rows:
            caught = ", ".join(f"{r['check']} ({r['class']})" for r in m["checks_run"] if r["exit"] == 1) or "-"
            hitc = {r["check"] for r in m["checks_run"] if r["exit"] == 1}
            missed = ", ".join(r["check"] for r in m["checks_run"] if r["exit"] == 0 and r["check"] not in hitc)
            if missed:
                caught += f"; passes {missed}"
            summ = (m.get("summary") or "").replace("|", "/").replace("\n", " ")
            if len(summ) > 230:
                summ = summ[:227] + "..."
            st = m["status"] + (": " + m["note"] if m.get("note") else "")
            f.write(f"| {m['id']} | {m.get('property')} | {summ} | {st} | {caught} |\n")
        n = len(rows)
        d = sum(1 for m in rows if m["status"] == "detected")
        f.write(f"\n{d} of {n} detected; " + ", ".join(f"{m['id']}: {m['status']}" for m in rows if m["status"] != "detected") + "\n")
    print(f"{len(rows)} seeds filed under {OUT}")


if __name__ == "__main__":
    main()
