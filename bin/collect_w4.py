#!/usr/bin/env python3
# bin/collect_w4.py -- assemble seeded/<ID>-w4<x>/ (patch, demonstration, meta.json with our re-verification and check runs)
# from the wave-4 work area /tmp/w4 and print the RESULTS.md rows.
import json,os,re,glob,shutil
rows=[]
for i in range(1,21):
    pid='C%02d'%i
    for x in 'ab':
        src='/tmp/w4/%s/out/%s'%(pid,x)
        sid='%s-w4%s'%(pid,x)
        dst='/verif/seeded/'+sid
        os.makedirs(dst,exist_ok=True)
        shutil.copy(src+'/patch.diff',dst+'/patch.diff')
        for f in glob.glob(src+'/*_test.go'):
            shutil.copy(f,dst+'/'+os.path.basename(f))
        meta=json.load(open(src+'/meta.json'))
        meta['id']=sid; meta['property']=pid; meta['wave']=4; meta['base_commit']='d837493'
        v=open('/tmp/w4/results/%s-%s.verify'%(pid,x)).read()
        m=re.search(r'applies=(\w+) builds=(\w+) suite_passes=(\w+) demo_fails_with=(\w+) demo_passes_without=(\w+)',v)
        meta['confirmed_by_us']=dict(zip(['applies','builds','suite_passes','demo_fails_with','demo_passes_without'],m.groups()))
        meta['confirmed_how']='bin/verify_seed.sh in a scratch worktree of /repo (applies, go build, the repository suite with the change, the demonstration with and without the change)'
        runs=[]
        for l in open('/tmp/w4/results/%s-%s.mutant'%(pid,x)):
            mm=re.match(r'MUTANT \S+ check=(C\d\d) rc=(\d+)\s*(VIOLATION \S+ replay=\S+)?\s*(classes=\{.*\})?',l)
            if mm:
                cl=mm.group(4) or ''
                runs.append({'check':mm.group(1),'tier':'quick','exit':int(mm.group(2)),'classes':cl.replace('classes=','')})
        meta['checks_run']=runs
        meta['checks_run_how']='bin/mutant.sh <patch> <check> quick: the unchanged check against a scratch copy of /repo with the patch applied; runs are listed in the order they were made (an exit 0 followed by an exit 1 of the same check is the run before and after the check was strengthened)'
        json.dump(meta,open(dst+'/meta.json','w'),indent=1)
        last={}
        for r in runs: last[r['check']]=r
        caught=[(c,r) for c,r in last.items() if r['exit']==1]
        first_own=[r for r in runs if r['check']==pid][0]
        def cls(r):
            ks=re.findall(r"'(C\d\d:[^']+)'",r['classes'])
            ks=[k for k in ks if k not in ('C13:negative-binint','C13:proto0-nonascii-name')]
            return ', '.join(ks[:3])
        if caught:
            order=sorted(caught,key=lambda cr:(cr[0]!=pid,cr[0]))
            by='; '.join('%s (%s)'%(c,cls(r)) for c,r in order)
            status='detected'
            note='' if first_own['exit']==1 else ' [first run of the own check: not reported]'
        else:
            by='-'; status='not detected'; note=''
        summ=meta.get('summary','').replace('\n',' ').replace('|','/')
        rows.append('| %s | %s | %s | %s | %s%s |'%(sid,pid,(summ[:230]+'...') if len(summ)>230 else summ,status,by,note))
print('\n'.join(rows))
