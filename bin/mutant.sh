#!/bin/bash
# bin/mutant.sh <patch.diff> <PROPERTY> [tier]  -- run a check against a scratch copy of /repo with a patch applied.
# Nothing in /repo or in /verif/evidence is touched; the copy is removed afterwards.
set -u
VERIF="$(cd "$(dirname "$0")/.." && pwd)"
patch="$1"; prop="$2"; tier="${3:-quick}"
d=$(mktemp -d "${TMPDIR:-/tmp}/crsim-mut-XXXXXX")
trap 'rm -rf "$d"' EXIT
mkdir -p "$d/repo" "$d/ev" "$d/rp"
(cd /repo && git ls-files -z | xargs -0 cp --parents -t "$d/repo") || exit 2
(cd "$d/repo" && git init -q . && git apply --whitespace=nowarn "$patch") || { echo "mutant: patch does not apply"; exit 3; }
VERIF_REPO="$d/repo" VERIF_EVIDENCE_DIR="$d/ev" VERIF_REPLAY_DIR="$d/rp" "$VERIF/bin/check" "$prop" "$tier"
rc=$?
if [ -n "${KEEP_REPLAYS:-}" ]; then mkdir -p "$KEEP_REPLAYS"; cp "$d"/rp/* "$KEEP_REPLAYS"/ 2>/dev/null; fi
exit $rc
