#!/bin/bash
# bin/mutants.sh PROP:patch [PROP:patch ...]  -- run several mutant checks in parallel, print one line each
VERIF="$(cd "$(dirname "$0")/.." && pwd)"
tier="${TIER:-quick}"
mkdir -p /tmp/mutlogs
for spec in "$@"; do
  prop="${spec%%:*}"; patch="${spec#*:}"
  tag=$(echo "$patch" | sed 's#/tmp/seedwork2/\(C[0-9]*\)/out/#\1-w2#; s#/tmp/seedwork3/\(C[0-9]*\)/out/#\1-w3#; s#/tmp/seedwork/##; s#/out/#-#; s#/patch.diff##; s#/#_#g')
  ( VERIF_JOBS=${JOBS:-6} "$VERIF/bin/mutant.sh" "$patch" "$prop" "$tier" > "/tmp/mutlogs/$prop-$tag.log" 2>&1; rc=$?
    v=$(grep -m1 "class=" "/tmp/mutlogs/$prop-$tag.log" | cut -c1-260)
    echo "MUTANT $tag check=$prop exit=$rc $v" ) &
done
wait
