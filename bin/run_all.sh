#!/bin/bash
# bin/run_all.sh [tier]  -- every check once, one summary line each (uses VERIF_SEED if set)
VERIF="$(cd "$(dirname "$0")/.." && pwd)"
tier="${1:-quick}"
for p in C01 C02 C03 C04 C05 C06 C07 C08 C09 C10 C11 C12 C13 C14 C15 C16 C17 C18 C19 C20; do
  t0=$(date +%s)
  out=$("$VERIF/bin/check" $p $tier 2>&1 | grep -v "^len")
  rc=$?
  echo "ALL $p rc=$rc $(( $(date +%s)-t0 ))s $(echo "$out" | grep '^check: [0-9]' | cut -c8-160) $(echo "$out" | grep -c '^KNOWN-FINDING') known $(echo "$out" | grep -m1 'VIOLATION\|INFRA' | cut -c1-200)"
done
