#!/bin/bash
# bin/run_some.sh <tier> <ID>...  -- like run_all.sh for the listed checks
VERIF="$(cd "$(dirname "$0")/.." && pwd)"
tier="$1"; shift
for p in "$@"; do
  t0=$(date +%s)
  out=$("$VERIF/bin/check" $p $tier 2>&1 | grep -v "^len")
  rc=$?
  echo "ALL $p rc=$rc $(( $(date +%s)-t0 ))s $(echo "$out" | grep '^check: [0-9]' | cut -c8-160) $(echo "$out" | grep -c '^KNOWN-FINDING') known $(echo "$out" | grep -m3 'VIOLATION\|INFRA\|class=' | cut -c1-300)"
done
