#!/bin/bash
# DESIGN.md 7.1: the same seeds must give identical execution fingerprints across processes,
# GOMAXPROCS values and position in a batch.  Usage: selftest_determinism.sh PROP [nseeds] [reps]
set -u
VERIF="$(cd "$(dirname "$0")/.." && pwd)"
prop="$1"; n="${2:-40}"; reps="${3:-3}"
T=$("$VERIF/bin/build.sh") || exit 2
d=$(mktemp -d); trap 'rm -rf "$d"' EXIT
export CRSIM_PY="$VERIF/py"
case "$prop" in
  C13|C16) python3 "$VERIF/py/gen_pickles.py" 4242 3000 "$d/pickles.json" >/dev/null || exit 2; export CRSIM_PICKLES="$d/pickles.json";;
  C15) python3 "$VERIF/py/carbon_ring.py" 4242 150 "$d/rings.json" >/dev/null || exit 2; export CRSIM_RINGS="$d/rings.json";;
esac
i=0
for gmp in 1 4 16; do
  for r in $(seq 1 $reps); do
    i=$((i+1))
    GOMAXPROCS=$gmp "$T" -test.run TestWorker -test.timeout 0 -prop "$prop" -seeds 0:$n -out "$d/o$i.jsonl" >/dev/null 2>&1 &
  done
done
# the same seeds alone in fresh processes (batch position independence): second half only
GOMAXPROCS=16 "$T" -test.run TestWorker -test.timeout 0 -prop "$prop" -seeds $((n/2)):$n -out "$d/half.jsonl" >/dev/null 2>&1 &
wait
python3 - "$d" "$i" <<'PY'
import json,sys,glob
d,k=sys.argv[1],int(sys.argv[2])
def load(p):
    m={}
    for l in open(p):
        o=json.loads(l)
        # C14 allows a run to be cut short by its real-time budget (heavy generated configurations): how far such a run got
        # depends on the machine, by design; the comparison is about complete runs
        cut = o.get('reason')=='real-time budget'
        m[(o['case']['seed'],json.dumps(o['case'].get('params'),sort_keys=True))]=('CUT' if cut else o['fp'],o.get('class'),0 if cut else o['steps'])
    return m
base=load(d+'/o1.jsonl'); bad=0
for i in range(2,k+1):
    m=load(d+'/o%d.jsonl'%i)
    if set(m)!=set(base): print('process',i,'different case set',len(m),len(base)); bad+=1; continue
    for key in base:
        if m[key]!=base[key] and 'CUT' not in (m[key][0],base[key][0]): bad+=1; print('DIVERGENCE process',i,key,base[key],m[key])
h=load(d+'/half.jsonl')
for key in h:
    if key in base and h[key]!=base[key] and 'CUT' not in (h[key][0],base[key][0]): bad+=1; print('DIVERGENCE alone-vs-batch',key,base[key],h[key])
print('determinism: %d cases x %d processes (GOMAXPROCS 1/4/16) + alone-vs-batch: %d divergences'%(len(base),k,bad))
sys.exit(1 if bad else 0)
PY
