#!/bin/bash
# DESIGN.md 7.3: the repository's own tests must pass on the instrumented copy (Y / Go / Lock rewrites,
# no import redirects) with the simulator inactive.  cmd/carbon-relay-ng (package main, 4 of the 45
# baseline tests) is not part of the instrumented copy and is not covered here.
set -u
VERIF="$(cd "$(dirname "$0")/.." && pwd)"
REPO="${1:-/repo}"
export GOFLAGS=-mod=mod GOPROXY=off GOSUMDB=off GOTOOLCHAIN=local
"$VERIF/bin/build.sh" "$REPO" >/dev/null || exit 2
sg=$(ls -t "$VERIF"/.cache/bin/simgen-* | head -1)
d=$(mktemp -d "${TMPDIR:-/tmp}/crsim-fid-XXXXXX"); trap 'rm -rf "$d"' EXIT
"$sg" -noredirect "$REPO" "$d/repo" >/dev/null || exit 2
rm -rf "$d/repo/crngmain"
# only simrt is needed by the instrumented packages (no redirects): a minimal crsim module
mkdir -p "$d/sim" && cp -r "$VERIF/sim/simrt" "$d/sim/simrt"
printf 'module crsim\n\ngo 1.26\n' > "$d/sim/go.mod"
printf '\nrequire crsim v0.0.0\n\nreplace crsim => ../sim\n' >> "$d/repo/go.mod"
cd "$d/repo" && go1.26.8 test -overlay "$VERIF/.cache/rtpatch/overlay.json" -vet=off -count=1 ./... 2>&1 | grep -v "no test files" > "$d/out.txt"
cat "$d/out.txt"
if grep -q "^FAIL\|^---\? FAIL\|panic:" "$d/out.txt"; then echo "fidelity: FAILED"; exit 1; fi
n=$(grep -c "^ok" "$d/out.txt")
echo "fidelity: $n packages ok on the instrumented copy"
[ "$n" -ge 8 ] || exit 1
