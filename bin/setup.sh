#!/bin/bash
# MANIFEST.setup_cmd: build simgen, the runtime overlay and a first simulator binary (offline).
cd "$(dirname "$0")/.." && bin/build.sh >/dev/null && echo "setup: ok"
