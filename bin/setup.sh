#!/bin/bash
# MANIFEST.setup_cmd: build simgen, the runtime overlay and the two simulator binaries (plain and -race), offline.
cd "$(dirname "$0")/.." && bin/build.sh >/dev/null && CRSIM_RACE=1 bin/build.sh >/dev/null && echo "setup: ok"
