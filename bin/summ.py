#!/usr/bin/env python3
import sys,json,collections
cls=collections.Counter(); n=0; steps=0; real=0; sim=0; probes=collections.Counter(); infra=[]
first={}
for l in sys.stdin:
    l=l.strip()
    if not l.startswith('{'):
        if l and not l.startswith(('PASS','ok','---','===')): print(l[:400])
        continue
    o=json.loads(l); n+=1; steps+=o['steps']; real+=o['real_ns']; sim+=o['sim_ns']
    for k,v in (o.get('probes') or {}).items(): probes[k]+=v
    if o.get('infra'): infra.append(o['infra'][:600])
    c=o.get('class') or ''
    cls[c]+=1
    if c and c not in first: first[c]=(o['case']['seed'],o['case'].get('params'),o.get('msg','')[:700])
print('cases',n,'steps',steps,'real_s',real/1e9,'sim_s',sim/1e9)
print('classes',dict(cls))
for c,v in first.items(): print('FIRST',c,v)
print('probes',dict(probes))
for i in infra[:3]: print('INFRA',i)
