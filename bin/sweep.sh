#!/bin/bash
# bin/sweep.sh "<props>" "<seeds>" [tier]  -- run checks for several VERIF_SEED values, one summary line each
VERIF="$(cd "$(dirname "$0")/.." && pwd)"
tier="${3:-quick}"
for p in $1; do for sd in $2; do
  out=$(VERIF_SEED=$sd VERIF_EVIDENCE_DIR=/tmp/sweep-ev VERIF_REPLAY_DIR=/tmp/sweep-rp "$VERIF/bin/check" $p $tier 2>&1 | grep -v "^len")
  rc=$?
  echo "SWEEP $p seed=$sd $(echo "$out" | grep '^check: [0-9]' | cut -c1-200) $(echo "$out" | grep -m2 'VIOLATION\|class=\|INFRA' | tr '\n' ' ' | cut -c1-400)"
done; done
