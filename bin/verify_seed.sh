#!/bin/bash
# bin/verify_seed.sh <seedwork out dir e.g. /tmp/seedwork/C05/out/a> -> confirms: applies, builds, suite passes, demo fails with / passes without
set -u
src="$1"; id=$(echo "$src" | sed 's#/tmp/seedwork2/\(C[0-9]*\)/out/#\1-w2#; s#/tmp/seedwork3/\(C[0-9]*\)/out/#\1-w3#; s#/tmp/w4/\(C[0-9]*\)/out/#\1-w4#; s#/tmp/seedwork/##; s#/out/#-#')
export GOFLAGS=-mod=mod GOPROXY=off GOSUMDB=off GOTOOLCHAIN=local
wt=$(mktemp -d /tmp/vseed-XXXXXX); rmdir "$wt"
git -C /repo worktree add -q --detach "$wt" HEAD || exit 2
trap 'git -C /repo worktree remove --force "$wt" >/dev/null 2>&1' EXIT
meta="$src/meta.json"
demodir=$(python3 -c "import json;print(json.load(open('$meta')).get('demo_dir','').strip('/'))")
res_apply=no; res_build=no; res_suite=no; res_demo_fail=no; res_demo_pass=no
cd "$wt"
if git apply --whitespace=nowarn "$src/patch.diff" 2>/dev/null; then res_apply=yes; fi
if [ $res_apply = yes ]; then
  go build ./... >/dev/null 2>&1 && res_build=yes
  # input.TestUdpConnection is timing-sensitive on a loaded box (fails on the pristine tree too): up to three attempts
  for attempt in 1 2 3; do
    if go test -vet=off -count=1 ./... >/tmp/vseed-$id.suite 2>&1; then res_suite=yes; break; fi
  done
  for f in "$src"/*_test.go; do [ -f "$f" ] && cp "$f" "$wt/$demodir/"; done
  if ! timeout 300 go test -vet=off -count=1 -run 'Demo|C[0-9][0-9]' "./$demodir/" >/tmp/vseed-$id.demo_with 2>&1; then res_demo_fail=yes; fi
  git apply -R --whitespace=nowarn "$src/patch.diff"
  if timeout 300 go test -vet=off -count=1 -run 'Demo|C[0-9][0-9]' "./$demodir/" >/tmp/vseed-$id.demo_without 2>&1; then res_demo_pass=yes; fi
fi
echo "SEED $id applies=$res_apply builds=$res_build suite_passes=$res_suite demo_fails_with=$res_demo_fail demo_passes_without=$res_demo_pass"
