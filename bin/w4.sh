#!/bin/bash
# bin/w4.sh <ID> <a|b> [extra check ids...] -- re-verify a wave-4 change and run the property's quick check (and any extra ones) against it
VERIF="$(cd "$(dirname "$0")/.." && pwd)"
id="$1"; x="$2"; shift 2
src=/tmp/w4/$id/out/$x
mkdir -p /tmp/w4/results
"$VERIF/bin/verify_seed.sh" "$src" | tee /tmp/w4/results/$id-$x.verify
for p in $id "$@"; do
  out=$("$VERIF/bin/mutant.sh" "$src/patch.diff" $p quick 2>&1); rc=$?
  echo "MUTANT $id-w4$x check=$p rc=$rc $(echo "$out" | grep -m1 '^VIOLATION' | cut -c1-150) $(echo "$out" | grep -o 'classes={[^}]*}' | tail -1 | cut -c1-200)" | tee -a /tmp/w4/results/$id-$x.mutant
  echo "$out" > /tmp/w4/results/$id-$x.$p.log
done
