#!/usr/bin/env python3
"""Transcription of carbon's ConsistentHashRing (carbon/hashing.py, the md5 ring used by
carbon-relay.py with replica_count=100) plus a seeded corpus of rings and keys with the owner carbon
would pick.  usage: carbon_ring.py <seed> <nrings> <out.json>"""
import bisect, json, random, sys
from hashlib import md5

class ConsistentHashRing:
    def __init__(self, nodes, replica_count=100):
        self.ring = []
        self.nodes = set()
        self.replica_count = replica_count
        for node in nodes:
            self.add_node(node)

    def compute_ring_position(self, key):
        big_hash = md5(str(key).encode()).hexdigest()
        small_hash = int(big_hash[:4], 16)
        return small_hash

    def add_node(self, node):
        self.nodes.add(node)
        for i in range(self.replica_count):
            replica_key = "%s:%d" % (node, i)
            position = self.compute_ring_position(replica_key)
            entry = (position, node)
            bisect.insort(self.ring, entry)

    def remove_node(self, node):
        self.nodes.discard(node)
        self.ring = [entry for entry in self.ring if entry[1] != node]

    def get_node(self, key):
        assert self.ring
        position = self.compute_ring_position(key)
        search_entry = (position, ())
        index = bisect.bisect_left(self.ring, search_entry) % len(self.ring)
        entry = self.ring[index]
        return entry[1]

def main():
    seed, nrings, out = int(sys.argv[1]), int(sys.argv[2]), sys.argv[3]
    rnd = random.Random(seed)
    hosts = ["10.4.0.%d" % i for i in range(1, 12)] + ["graphite-%d.example.org" % i for i in range(1, 6)] + ["Graphite-A.Example.org", "CARBON01", "cache-B.dc2"]  # carbon hashes the host string as configured, capitals included
    rings = []
    for r in range(nrings):
        n = rnd.randrange(1, 9)
        nodes = []
        seen = set()
        style = rnd.randrange(3)
        while len(nodes) < n:
            host = rnd.choice(hosts[:4] if style == 2 else hosts)
            # carbon identifies a node by (server, instance); instance None when not configured
            inst = None if style == 0 else rnd.choice(["a", "b", "c", "d", "e", "f"])
            if (host, inst) in seen:
                continue
            seen.add((host, inst))
            nodes.append((host, inst))
        ring = ConsistentHashRing(nodes)
        keys = ["servers.h%d.cpu.%d" % (rnd.randrange(50), i) for i in range(300)]
        # keys whose position coincides exactly with a ring entry (bisect_left vs bisect_right matters)
        positions = set(e[0] for e in ring.ring)
        i = 0
        exact = 0
        while exact < 40 and i < 60000:
            k = "exact.%d.%d" % (r, i)
            i += 1
            if ring.compute_ring_position(k) in positions:
                keys.append(k)
                exact += 1
        owners = [list(ring.get_node(k)) for k in keys]
        # addresses as the relay is configured: host:port[:instance]
        addrs = ["%s:%d%s" % (h, 2003 + j, "" if inst is None else ":" + inst) for j, (h, inst) in enumerate(nodes)]
        rings.append({"addrs": addrs, "nodes": [list(x) for x in nodes], "keys": keys, "owners": owners})
    json.dump({"seed": seed, "rings": rings}, open(out, "w"))
    print("carbon_ring: %d rings" % len(rings))

if __name__ == "__main__":
    main()
