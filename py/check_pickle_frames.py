#!/usr/bin/env python3
"""Reads {"frames":[{"hex": <pickle body>, "name":..., "val": <value token>, "ts": <timestamp token>}]} on stdin,
unpickles every body with CPython and compares with [(name, (int(ts), float(val)))].
Prints a JSON list of {"i":..., "why":...} for every frame that differs."""
import json, math, pickle, sys

def tofloat(tok):
    t = tok.strip()
    low = t.lower().lstrip("+-")
    if low.startswith("0x"):
        return float.fromhex(t)
    return float(t)

req = json.load(sys.stdin)
bad = []
for i, f in enumerate(req["frames"]):
    try:
        obj = pickle.loads(bytes.fromhex(f["hex"]))
    except Exception as e:
        bad.append({"i": i, "why": "pickle.loads failed: %r" % (e,)})
        continue
    try:
        want_ts, want_val = int(f["ts"]), tofloat(f["val"])
    except Exception as e:
        bad.append({"i": i, "why": "harness cannot interpret tokens %r %r: %r" % (f["val"], f["ts"], e)})
        continue
    ok = (isinstance(obj, list) and len(obj) == 1 and isinstance(obj[0], tuple) and len(obj[0]) == 2
          and isinstance(obj[0][1], tuple) and len(obj[0][1]) == 2)
    if not ok:
        bad.append({"i": i, "why": "shape is %r, expected [(name, (ts, val))]" % (obj,)})
        continue
    name, (ts, val) = obj[0]
    if isinstance(name, bytes):
        name = name.decode("utf-8", "surrogateescape")
    same_val = (val == want_val) or (isinstance(val, float) and math.isnan(val) and math.isnan(want_val))
    if name != f["name"] or not isinstance(ts, int) or ts != want_ts or not isinstance(val, float) or not same_val:
        bad.append({"i": i, "why": "decoded (%r, (%r, %r)), expected (%r, (%r, %r))" % (name, ts, val, f["name"], want_ts, want_val)})
json.dump(bad, sys.stdout)
