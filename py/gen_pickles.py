#!/usr/bin/env python3
"""Seeded corpus of carbon pickle frames produced by the installed CPython (protocols 0-4), with the
plain-text rendering the statement of C13 prescribes and the number of structurally invalid items.
usage: gen_pickles.py <seed> <ncases> <out.json>"""
import json, pickle, random, struct, sys

seed, n, out = int(sys.argv[1]), int(sys.argv[2]), sys.argv[3]
rnd = random.Random(seed)
NAMES = ["a.b.c", "servers.web1.cpu", "x", "été.b", "a.b;tag=v", "m" * 300, "dots..in.name", "UPPER.case-1_2"]

def gen_ts():
    k = rnd.randrange(8)
    if k == 0: return str(1500000000 + rnd.randrange(1000))
    if k == 1: return rnd.randrange(200)                 # BININT1
    if k == 2: return 2**31 + rnd.randrange(1000)        # beyond BININT in protocol >= 2: LONG1
    if k == 3: return 2**40 + rnd.randrange(1000)
    if k == 4: return rnd.randrange(60000)               # BININT2
    return 1500000000 + rnd.randrange(100000)

def gen_val():
    k = rnd.randrange(10)
    if k == 0: return str(rnd.randrange(1000) / 8.0)
    if k == 1: return rnd.randrange(256)
    if k == 2: return -rnd.randrange(70000)
    if k == 3: return 2**40 + rnd.randrange(10)           # a python int that does not fit 32 bits
    if k == 4: return rnd.choice([0.5, 1e3, -2.25, 1e-7, 123456.789, 0.0, 1/3.0, 1e15])
    if k == 5: return 2**70                                # a python long beyond 64 bits
    if k == 6: return rnd.randrange(10**9)
    return round(rnd.random() * 1000, rnd.randrange(4))

def render(v):
    if isinstance(v, str): return v
    if isinstance(v, float): return "%f" % v
    return "%d" % v

def gen_item():
    """returns (python object, plain line or None if structurally invalid)"""
    name, ts, val = rnd.choice(NAMES), gen_ts(), gen_val()
    k = rnd.randrange(14)
    if k == 0: return ((name, (ts,)), None)                       # data arity
    if k == 1: return ((name, (ts, val, 1)), None)
    if k == 2: return ((name,), None)                             # item arity
    if k == 3: return ((name, (ts, val), 7), None)
    if k == 4: return ((rnd.choice([5, None, 1.5]), (ts, val)), None)   # name not a string
    if k == 5: return ((name, rnd.choice([5, None, {"a": 1}, "tsval"])), None)  # data not a sequence
    if k == 6: return ((name, (ts, rnd.choice([None, {"v": 1}, [1, 2]]))), None)  # value type
    if k == 7: return ((name, (rnd.choice([None, {"t": 1}, [1]]), val)), None)    # timestamp type
    if k == 8: return (rnd.choice([5, None, "justastring"]), None)                 # item not a sequence
    line = "%s %s %s" % (name, render(val), render(ts))
    shape = rnd.randrange(4)
    data = (ts, val) if shape & 1 else [ts, val]
    item = (name, data) if shape & 2 else [name, data]
    return (item, line)

cases = []
for i in range(n):
    proto = i % 5
    items, lines, invalid = [], [], 0
    for _ in range(rnd.choice([0, 1, 1, 2, 3, 5, 12, 40])):
        obj, line = gen_item()
        items.append(obj)
        if line is None: invalid += 1
        else: lines.append(line)
    body = pickle.dumps(items, protocol=proto)
    cases.append({"proto": proto, "frame": (struct.pack("!L", len(body)) + body).hex(), "lines": lines, "invalid": invalid, "items": len(items)})
json.dump({"seed": seed, "python": sys.version.split()[0], "cases": cases}, open(out, "w"))
print("gen_pickles: %d cases, python %s" % (len(cases), sys.version.split()[0]))
