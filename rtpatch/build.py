#!/usr/bin/env python3
"""Build the runtime overlay for the simulator binary (DESIGN.md 3.3).
Copies three files from the pinned go1.26.8 GOROOT, applies verified exact-line
edits, adds runtime/verif_sim.go and writes overlay.json.  The installed GOROOT
is never modified.  Exit 2 on any missing anchor."""
import json, os, sys

GOROOT = os.environ.get("VERIF_GOROOT", "/opt/veriftools/go1.26.8")
out = sys.argv[1]
os.makedirs(out, exist_ok=True)
rt = os.path.join(GOROOT, "src", "runtime")

def patch(name, edits):
    src = open(os.path.join(rt, name)).read()
    for old, new in edits:
        if src.count(old) != 1:
            sys.stderr.write("rtpatch: anchor not found exactly once in %s: %r\n" % (name, old))
            sys.exit(2)
        src = src.replace(old, new)
    dst = os.path.join(out, name + ".txt")
    open(dst, "w").write(src)
    return dst

ov = {}
ov[os.path.join(rt, "select.go")] = patch("select.go", [
    ("\t\tj := cheaprandn(uint32(norder + 1))\n", "\t\tj := verifSelRandn(uint32(norder + 1))\n"),
])
ov[os.path.join(rt, "rand.go")] = patch("rand.go", [
    ("func rand() uint64 {\n", "func rand() uint64 {\n\tif verifOn != 0 {\n\t\tif v, ok := verifMapRand(); ok {\n\t\t\treturn v\n\t\t}\n\t}\n"),
])
ov[os.path.join(rt, "alg.go")] = patch("alg.go", [
    ("\tfor i := range hashkey {\n\t\thashkey[i] = uintptr(bootstrapRand())\n\t}\n",
     "\tfor i := range hashkey {\n\t\thashkey[i] = uintptr(0x9E3779B97F4A7C15>>uint(i)) | 1\n\t}\n"),
    ("\tfor i := range key {\n\t\tkey[i] = bootstrapRand()\n\t}\n",
     "\tfor i := range key {\n\t\tkey[i] = 0x9E3779B97F4A7C15 * uint64(i+1)\n\t}\n"),
])
# per-goroutine PRNG states: a goroutine the simulator does not schedule (net/http's request-timeout helper) must not be able to
# advance the state a scheduled task draws from
ov[os.path.join(rt, "runtime2.go")] = patch("runtime2.go", [
    ("\tgcAssistBytes int64\n", "\tgcAssistBytes int64\n\n\tverifSel uint64 // /verif/rtpatch: select poll order state of a simulated task (0: not a task)\n\tverifMap uint64 // /verif/rtpatch: runtime.rand state of a simulated task\n"),
])
extra = os.path.join(out, "verif_sim.go.txt")
open(extra, "w").write('''package runtime

// Added by /verif/rtpatch (simulator builds only; see DESIGN.md 3.3).
// The states live in the g of each simulated task: goroutines the simulator does not schedule draw from the
// ordinary per-M generators and cannot perturb a task's sequence.

var verifOn uint32

// VerifSetSelectSeed seeds the select poll order of the calling goroutine; 0 returns it to the runtime's own generator.
func VerifSetSelectSeed(seed uint64) {
	getg().verifSel = seed
	if seed != 0 {
		verifOn = 1
	}
}

// VerifSetMapSeed seeds runtime.rand (map seeds, iteration offsets, unseeded math/rand) of the calling goroutine.
func VerifSetMapSeed(seed uint64) {
	getg().verifMap = seed
	if seed != 0 {
		verifOn = 1
	}
}

// VerifGoid returns the current goroutine id.
func VerifGoid() uint64 { return getg().goid }

func verifSelRandn(n uint32) uint32 {
	gp := getg()
	if gp == nil || gp.verifSel == 0 {
		return cheaprandn(n)
	}
	x := gp.verifSel
	x ^= x >> 12
	x ^= x << 25
	x ^= x >> 27
	gp.verifSel = x
	return uint32((((x * 2685821657736338717) >> 32) * uint64(n)) >> 32)
}

//go:nosplit
func verifMapRand() (uint64, bool) {
	gp := getg()
	if gp == nil || gp.verifMap == 0 {
		return 0, false
	}
	x := gp.verifMap
	x ^= x >> 12
	x ^= x << 25
	x ^= x >> 27
	gp.verifMap = x
	return x * 2685821657736338717, true
}
''')
ov[os.path.join(rt, "verif_sim.go")] = extra
json.dump({"Replace": ov}, open(os.path.join(out, "overlay.json"), "w"), indent=1)
print("rtpatch: overlay written to", out)
