package aggregator

import "github.com/grafana/carbon-relay-ng/util"

// VerifReset re-creates package-level channels inside the current bubble and
// re-initialises the package metrics (simulator builds only).
func VerifReset() {
	flushes = util.NewLimiter(1)
	aggregatorReporter = nil
	InitMetrics()
}
