package crngmain

// VerifReadConfigFile exposes the relay's config-file reader (with interpolation) to the harness.
func VerifReadConfigFile(path string) string { return readConfigFile(path) }

// VerifExpandVars exposes the interpolation callback.
func VerifExpandVars(in string) string { return expandVars(in) }
