package destination

// VerifSetKeepSafeCap lowers the initial capacity of the keep-safe slices (memory only).
func VerifSetKeepSafeCap(n int) { keepsafe_initial_cap = n }

// VerifSpoolDepth returns the depth of the destination's disk queue, -1 without spool.
func (dest *Destination) VerifSpoolDepth() int64 {
	if dest.spool == nil {
		return -1
	}
	return dest.spool.queue.Depth()
}

// VerifTuning exposes the tuning options of a destination (they have no exported accessor).
func (dest *Destination) VerifTuning() map[string]int64 {
	return map[string]int64{
		"flush":                int64(dest.periodFlush / 1e6),
		"reconn":               int64(dest.periodReConn / 1e6),
		"connbuf":              int64(dest.connBufSize),
		"iobuf":                int64(dest.ioBufSize),
		"spoolbuf":             int64(dest.SpoolBufSize),
		"spoolmaxbytesperfile": dest.SpoolMaxBytesPerFile,
		"spoolsyncevery":       dest.SpoolSyncEvery,
		"spoolsyncperiod":      int64(dest.SpoolSyncPeriod / 1e6),
		"spoolsleep":           int64(dest.SpoolSleep / 1e3),
		"unspoolsleep":         int64(dest.UnspoolSleep / 1e3),
	}
}
