package destination

// VerifSetKeepSafeCap lowers the initial capacity of the keep-safe slices (memory only).
func VerifSetKeepSafeCap(n int) { keepsafe_initial_cap = n }

// VerifSpoolDepth returns the depth of the destination's disk queue, -1 without spool.
func (dest *Destination) VerifSpoolDepth() int64 {
	if dest.spool == nil {
		return -1
	}
	return dest.spool.queue.Depth()
}
