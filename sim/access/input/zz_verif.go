package input

import "github.com/streadway/amqp"

type verifNopCloser struct{}

func (verifNopCloser) Close() error { return nil }

// VerifAMQPConnector returns a connector (the existing test seam of NewAMQP) that hands the given
// delivery channel to the consumer instead of dialing a broker.
func VerifAMQPConnector(deliveries <-chan amqp.Delivery) func(a *Amqp) error {
	return func(a *Amqp) error {
		a.channel = verifNopCloser{}
		a.conn = verifNopCloser{}
		a.delivery = deliveries
		return nil
	}
}
