package telnet

// VerifReset forgets the registered admin handlers (they are registered again by every Start).
func VerifReset() { muxList = make([]route, 0, 0) }
