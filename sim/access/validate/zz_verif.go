package validate

// VerifReset clears the process-wide order-validation state (simulator builds only).
func VerifReset() {
	m = make(map[uint64]uint32)
}
