package validate

// VerifReset clears the process-wide order-validation state (simulator builds only).
// Written so that it does not depend on the key and value types of the map.
func VerifReset() {
	for k := range m {
		delete(m, k)
	}
}
