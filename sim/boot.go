package crsim

import (
	"fmt"

	"crsim/simos"

	"github.com/BurntSushi/toml"
	"github.com/grafana/carbon-relay-ng/cfg"
	"github.com/grafana/carbon-relay-ng/crngmain"
	"github.com/grafana/carbon-relay-ng/table"
)

// bootFromTOML starts a table the way main() does: config file text on the (simulated) disk ->
// readConfigFile (interpolation) -> toml.Decode -> Config.TableConfig -> table.New -> cfg.InitTable.
// Must run inside the bubble as a relay task.
func bootFromTOML(text string) (*table.Table, cfg.Config, error) {
	const path = "/etc/carbon-relay-ng.ini"
	simos.Cur().WriteFile(path, []byte(text))
	str := crngmain.VerifReadConfigFile(path)
	config := cfg.NewConfig()
	meta, err := toml.Decode(str, &config)
	if err != nil {
		return nil, config, fmt.Errorf("invalid config: %v", err)
	}
	tc, err := config.TableConfig()
	if err != nil {
		return nil, config, err
	}
	tbl := table.New(tc)
	if err := cfg.InitTable(tbl, config, meta); err != nil {
		return tbl, config, err
	}
	return tbl, config, nil
}
