package crsim

// Scripted remote carbon endpoints (harness tasks in domain "endpoint").

import (
	"bytes"
	"encoding/binary"
	"fmt"
	"io"
	"time"

	"crsim/simnet"
	"crsim/simrt"

	ogorek "github.com/kisielk/og-rek"
)

// EpConn is one accepted connection and everything read from it.
type EpConn struct {
	C      *simnet.TCPConn
	Data   []byte
	EOF    bool
	Err    error
	Killed bool // the endpoint died while this connection was open
	Inc    int  // endpoint incarnation
}

// Endpoint is a carbon server with controllable behaviour.
type Endpoint struct {
	S     *simrt.Sim
	N     *simnet.Net
	Addr  string
	ln    *simnet.TCPListener
	Conns []*EpConn
	Cond  *simrt.Cond
	Inc   int
	Up    bool
	// behaviour knobs (may be changed while running)
	ReadDelay   time.Duration // pause after each read
	ReadBuf     int           // size of the read buffer
	Paused      bool          // accepts but never reads
	CloseAfter  int           // close each connection after this many bytes (0 = never)
	ResetOnDown bool          // Down() resets instead of closing
	Group       string
}

func NewEndpoint(s *simrt.Sim, n *simnet.Net, addr string) *Endpoint {
	return &Endpoint{S: s, N: n, Addr: addr, Cond: simrt.NewCond(), ReadBuf: 4096, Group: "endpoint:" + addr}
}

// Start makes the endpoint listen and accept.
func (e *Endpoint) Start() error {
	a, err := simnet.ResolveTCPAddr("tcp", e.Addr)
	if err != nil {
		return err
	}
	ln, err := e.N.ListenTCP(a)
	if err != nil {
		return err
	}
	e.ln = ln
	e.Up = true
	e.Inc++
	inc := e.Inc
	e.S.Spawn("accept:"+e.Addr, "endpoint", e.Group, func() {
		for {
			c, err := ln.AcceptTCP()
			if err != nil {
				return
			}
			ec := &EpConn{C: c, Inc: inc}
			e.Conns = append(e.Conns, ec)
			e.S.Logf("endpoint %s accepted %v", e.Addr, c)
			e.S.Spawn(fmt.Sprintf("read:%s#%d", e.Addr, len(e.Conns)), "endpoint", e.Group, func() { e.reader(ec) })
		}
	})
	return nil
}

func (e *Endpoint) reader(ec *EpConn) {
	for {
		if e.Paused {
			e.Cond.Wait(func() bool { return !e.Paused || ec.Killed }, time.Time{})
		}
		if ec.Killed {
			return
		}
		buf := make([]byte, e.ReadBuf)
		n, err := ec.C.Read(buf)
		ec.Data = append(ec.Data, buf[:n]...)
		if n > 0 {
			e.Cond.Broadcast()
		}
		if err != nil {
			if err == io.EOF {
				ec.EOF = true
			} else {
				ec.Err = err
			}
			ec.C.Close()
			e.Cond.Broadcast()
			return
		}
		if e.CloseAfter > 0 && len(ec.Data) >= e.CloseAfter {
			e.S.Probe("endpoint.closed_midstream")
			ec.C.Close()
			ec.Killed = true
			return
		}
		if e.ReadDelay > 0 {
			simrt.Sleep(e.ReadDelay)
		}
	}
}

// Down is process death: the listener goes away, open connections get FIN or RST.
func (e *Endpoint) Down() {
	if !e.Up {
		return
	}
	e.Up = false
	e.S.Logf("endpoint %s DOWN", e.Addr)
	e.ln.Close()
	for _, ec := range e.Conns {
		if ec.Inc == e.Inc && !ec.Killed && !ec.EOF && ec.Err == nil {
			ec.Killed = true
			if e.ResetOnDown {
				ec.C.Reset()
			} else {
				ec.C.Close()
			}
		}
	}
	e.Cond.Broadcast()
	e.S.Probe("endpoint.down")
}

// Lines returns the newline-terminated records of one connection; tail is the unterminated rest.
func (ec *EpConn) Lines() (lines [][]byte, tail []byte) {
	d := ec.Data
	for {
		i := bytes.IndexByte(d, '\n')
		if i < 0 {
			return lines, d
		}
		lines = append(lines, d[:i])
		d = d[i+1:]
	}
}

// PickleFrame is one decoded frame of a pickle-mode stream.
type PickleFrame struct {
	Name string
	TS   int64
	Val  float64
	Raw  []byte
}

// PickleFrames parses 4-byte big-endian length-prefixed pickles of [(name,(ts,val))].
func PickleFrames(d []byte) (frames []PickleFrame, tail []byte, err error) {
	for len(d) > 0 {
		if len(d) < 4 {
			return frames, d, nil
		}
		n := int(binary.BigEndian.Uint32(d))
		if n > 1<<20 {
			return frames, d, fmt.Errorf("frame %d: implausible length prefix %d", len(frames), n)
		}
		if len(d) < 4+n {
			return frames, d, nil
		}
		body := d[4 : 4+n]
		v, derr := ogorek.NewDecoder(bytes.NewReader(body)).Decode()
		if derr != nil {
			return frames, d, fmt.Errorf("frame %d: undecodable pickle: %v", len(frames), derr)
		}
		list, ok := v.([]interface{})
		if !ok || len(list) != 1 {
			return frames, d, fmt.Errorf("frame %d: not a one-element list: %T", len(frames), v)
		}
		item, ok := asSlice(list[0])
		if !ok || len(item) != 2 {
			return frames, d, fmt.Errorf("frame %d: item is not a pair: %#v", len(frames), list[0])
		}
		name, ok := item[0].(string)
		pt, ok2 := asSlice(item[1])
		if !ok || !ok2 || len(pt) != 2 {
			return frames, d, fmt.Errorf("frame %d: bad item %#v", len(frames), item)
		}
		f := PickleFrame{Name: name, Raw: body}
		switch t := pt[0].(type) {
		case int64:
			f.TS = t
		case int:
			f.TS = int64(t)
		default:
			return frames, d, fmt.Errorf("frame %d: timestamp has type %T", len(frames), pt[0])
		}
		switch t := pt[1].(type) {
		case float64:
			f.Val = t
		case int64:
			f.Val = float64(t)
		default:
			return frames, d, fmt.Errorf("frame %d: value has type %T", len(frames), pt[1])
		}
		frames = append(frames, f)
		d = d[4+n:]
	}
	return frames, nil, nil
}

func asSlice(v interface{}) ([]interface{}, bool) {
	switch t := v.(type) {
	case ogorek.Tuple:
		return []interface{}(t), true
	case []interface{}:
		return t, true
	}
	return nil, false
}
