// Package crsim is the whole-relay deterministic simulator harness (DESIGN.md).
package crsim

import (
	"encoding/json"
	"fmt"
	"io/ioutil"
	"os"
	"sort"
	"strings"
	"testing"
	"time"

	"crsim/simrt"
)

// Case identifies one exactly repeatable execution.
type Case struct {
	Prop   string         `json:"property"`
	Tier   string         `json:"tier"`
	Seed   uint64         `json:"seed"`
	Params map[string]int `json:"params,omitempty"`
	// present in replay files: recorded draws (plan stream and schedule stream)
	Gen   []uint32 `json:"gen,omitempty"`
	Sched []uint32 `json:"sched,omitempty"`
	// Replay selects replay mode (draws come from Gen/Sched; exhausted => 0)
	Replay bool `json:"replay,omitempty"`
	// Race: executed by the race-detector build (bin/check's race pass); such a replay needs that build again
	Race bool `json:"race,omitempty"`
}

// Outcome is what one execution produced.
type Outcome struct {
	Case        Case           `json:"case"`
	Class       string         `json:"class,omitempty"` // violation class, "" if the property held
	Msg         string         `json:"msg,omitempty"`
	Infra       string         `json:"infra,omitempty"` // harness trouble: exit 2, never a VIOLATION
	Fingerprint string         `json:"fp"`
	SchedFP     string         `json:"schedfp"`
	StateSig    string         `json:"statesig,omitempty"`
	Steps       int            `json:"steps"`
	Yields      int            `json:"yields"`
	Switches    int            `json:"switches"`
	Preempts    int            `json:"preempts"`
	Tasks       int            `json:"tasks"`
	SimNanos    int64          `json:"sim_ns"`
	RealNanos   int64          `json:"real_ns"`
	Reason      string         `json:"reason"`
	Probes      map[string]int `json:"probes,omitempty"`
	GenUsed     int            `json:"gen_used"`
	SchedUsed   int            `json:"sched_used"`
	SubCases    int            `json:"subcases,omitempty"` // C08: number of file-operation boundaries of the history
	SubList     []int          `json:"sublist,omitempty"`  // C08: boundaries with a distinct (disk image, harness state) to crash at
	Nontrivial  bool           `json:"nontrivial"`
	Sample      interface{}    `json:"sample,omitempty"`
	Log         []string       `json:"log,omitempty"`
	TaskDump    string         `json:"tasks_dump,omitempty"`
	gen, sched  *simrt.Choices
}

// Exec is the context handed to a scenario.
type Exec struct {
	T     *testing.T
	Case  *Case
	Gen   *simrt.Choices // plan stream: consumed before the bubble starts
	Sched *simrt.Choices // schedule stream: consumed online
	Out   *Outcome
	Cfg   simrt.Config
	Trace bool
	// AllowCutShort: a run that hits its step/time budget is not infrastructure trouble (C14 builds
	// deliberately heavy configurations); it is counted and otherwise ignored
	AllowCutShort bool
}

// Param returns a case parameter (0 if absent).
func (x *Exec) Param(name string) int { return x.Case.Params[name] }

// Scenario runs one case and fills x.Out.
type Scenario func(x *Exec)

var registry = map[string]Scenario{}

// Register binds a property id to its scenario.
func Register(prop string, s Scenario) { registry[prop] = s }

// Props lists registered properties.
func Props() []string {
	var p []string
	for k := range registry {
		p = append(p, k)
	}
	sort.Strings(p)
	return p
}

// SwarmConfig draws the per-run scheduling policy (swarm style) from the plan stream.
func SwarmConfig(g *simrt.Choices) simrt.Config {
	c := simrt.DefaultConfig()
	c.SwitchP = []float64{0.2, 0, 0.02, 0.5, 0.9}[g.Pick(5)]
	c.PreemptP = []float64{0.05, 0, 0.01, 0.2, 0.6}[g.Pick(5)]
	c.MaxBudget = []int{40, 3, 10, 200}[g.Pick(4)]
	c.TimeRaceP = []float64{0.02, 0, 0.1}[g.Pick(3)]
	c.RaceDelta = []time.Duration{500 * time.Microsecond, 50 * time.Microsecond, 2 * time.Millisecond}[g.Pick(3)]
	return c
}

// RunCase executes one case in this process.
func RunCase(t *testing.T, c Case, trace bool) *Outcome {
	sc, ok := registry[c.Prop]
	if !ok {
		return &Outcome{Case: c, Infra: "unknown property " + c.Prop}
	}
	out := &Outcome{Case: c, Probes: map[string]int{}}
	x := &Exec{T: t, Case: &c, Out: out, Trace: trace}
	if c.Replay {
		x.Gen = simrt.NewReplay(c.Gen)
		x.Sched = simrt.NewReplay(c.Sched)
	} else {
		x.Gen = simrt.NewChoices(simrt.Mix(c.Seed, 0x67656e))
		x.Sched = simrt.NewChoices(simrt.Mix(c.Seed, 0x736368))
	}
	out.gen, out.sched = x.Gen, x.Sched
	func() {
		defer func() {
			if r := recover(); r != nil {
				out.Infra = fmt.Sprintf("harness panic outside the bubble: %v", r)
			}
		}()
		sc(x)
	}()
	out.GenUsed, out.SchedUsed = x.Gen.Used(), x.Sched.Used()
	harvestRaces(out)
	return out
}

// Bubble runs driver inside a fresh simulation and copies the bookkeeping into x.Out.
func (x *Exec) Bubble(cfg simrt.Config, driver func(s *simrt.Sim)) *simrt.Sim {
	cfg.Trace = x.Trace
	resetGlobals()
	res := simrt.RunBubble(x.T, cfg, x.Sched, simrt.Mix(x.Case.Seed, 0x6d6170), func(s *simrt.Sim) {
		driver(s)
		s.Stop("driver done")
	})
	s := res.Sim
	o := x.Out
	if s == nil {
		o.Infra = "bubble did not start: " + res.EndPanic
		return nil
	}
	if res.EndPanic != "" && o.Infra == "" {
		o.Infra = "bubble ended with panic: " + res.EndPanic
	}
	if s.InfraErr != "" && o.Infra == "" {
		if x.AllowCutShort && strings.Contains(s.InfraErr, "real-time budget") {
			o.Probes["run_cut_short.real_time_budget"]++
		} else {
			o.Infra = s.InfraErr
		}
	}
	o.Fingerprint, o.SchedFP = s.Fingerprint(), s.SchedFingerprint()
	o.Steps += s.St.Steps
	o.Yields += s.St.Yields
	o.Switches += s.St.Switches
	o.Preempts += s.St.Preempts
	o.Tasks += s.St.Tasks
	o.SimNanos += int64(s.St.SimTime)
	o.RealNanos += res.RealNanos
	o.Reason = s.Reason()
	for k, v := range s.Probes {
		o.Probes[k] += v
	}
	o.Probes["sched.clock_advance"] += s.St.ClockAdvances
	o.Probes["sched.time_race"] += s.St.TimeRaces
	o.Probes["sched.preempt"] += s.St.Preempts
	if s.Viol != nil && o.Class == "" {
		o.Class, o.Msg = s.Viol.Class, fmt.Sprintf("%s (sim t=%v step=%d)", s.Viol.Msg, s.Viol.At, s.Viol.Step)
	}
	if o.Class != "" || o.Infra != "" || x.Trace {
		o.Log = s.Log()
		o.TaskDump = s.Describe()
	}
	return s
}

// ReplayFile is what is written for every violation (DESIGN.md 4).
type ReplayFile struct {
	Property    string         `json:"property"`
	Tier        string         `json:"tier"`
	Seed        uint64         `json:"seed"`
	Params      map[string]int `json:"params,omitempty"`
	Gen         []uint32       `json:"gen"`
	Sched       []uint32       `json:"sched"`
	Class       string         `json:"class"`
	Msg         string         `json:"msg"`
	Fingerprint string         `json:"fingerprint"`
	RepoHash    string         `json:"repo_hash"`
	Race        bool           `json:"race,omitempty"`
	Minimised   bool           `json:"minimised"`
	Sample      interface{}    `json:"plan,omitempty"`
	Log         []string       `json:"log_tail,omitempty"`
}

func (o *Outcome) ToReplay(repoHash string) *ReplayFile {
	return &ReplayFile{Property: o.Case.Prop, Tier: o.Case.Tier, Seed: o.Case.Seed, Params: o.Case.Params,
		Gen: append([]uint32(nil), o.gen.Rec...), Sched: append([]uint32(nil), o.sched.Rec...),
		Class: o.Class, Msg: o.Msg, Fingerprint: o.Fingerprint, RepoHash: repoHash, Sample: o.Sample, Log: o.Log, Race: simrt.RaceBuild}
}

func (r *ReplayFile) Case() Case {
	return Case{Prop: r.Property, Tier: r.Tier, Seed: r.Seed, Params: r.Params, Gen: r.Gen, Sched: r.Sched, Replay: true}
}

func WriteJSON(path string, v interface{}) error {
	b, err := json.MarshalIndent(v, "", " ")
	if err != nil {
		return err
	}
	return ioutil.WriteFile(path, b, 0644)
}

func ReadReplay(path string) (*ReplayFile, error) {
	b, err := ioutil.ReadFile(path)
	if err != nil {
		return nil, err
	}
	var r ReplayFile
	if err := json.Unmarshal(b, &r); err != nil {
		return nil, err
	}
	return &r, nil
}

// Minimise shrinks the recorded draw lists while the same violation class recurs
// (delta debugging on the choice sequences, DESIGN.md 4).  Deterministic; bounded
// by attempts and wall time.
func Minimise(t *testing.T, r *ReplayFile, maxAttempts int, budget time.Duration) (*ReplayFile, int) {
	deadline := time.Now().Add(budget)
	attempts := 0
	best := *r
	try := func(gen, sched []uint32) bool {
		if attempts >= maxAttempts || time.Now().After(deadline) {
			return false
		}
		attempts++
		c := best.Case()
		c.Gen, c.Sched = gen, sched
		o := RunCase(t, c, false)
		if o.Infra == "" && o.Class == best.Class {
			nr := o.ToReplay(best.RepoHash)
			// keep the lists as given (not as re-recorded) only if shorter
			best.Gen, best.Sched = trimZeros(nr.Gen), trimZeros(nr.Sched)
			best.Msg, best.Fingerprint, best.Sample, best.Log = nr.Msg, nr.Fingerprint, nr.Sample, nr.Log
			return true
		}
		return false
	}
	shrinkList := func(get func() []uint32, set func(l []uint32) ([]uint32, []uint32)) {
		// 1. delete chunks (halves, then smaller)
		for size := len(get()) / 2; size >= 1; size /= 2 {
			for i := 0; i+size <= len(get()); {
				l := get()
				cand := append(append([]uint32(nil), l[:i]...), l[i+size:]...)
				g, s := set(cand)
				if !try(g, s) {
					i += size
				}
				if attempts >= maxAttempts || time.Now().After(deadline) {
					return
				}
			}
		}
		// 2. zero, then lower single values
		for i := 0; i < len(get()); i++ {
			l := get()
			if i >= len(l) || l[i] == 0 {
				continue
			}
			cand := append([]uint32(nil), l...)
			cand[i] = 0
			g, s := set(cand)
			if try(g, s) {
				continue
			}
			if l[i] > 1 {
				cand2 := append([]uint32(nil), l...)
				cand2[i] = l[i] / 2
				g, s = set(cand2)
				try(g, s)
			}
			if attempts >= maxAttempts || time.Now().After(deadline) {
				return
			}
		}
	}
	// schedule first (truncate to boring suffix), then plan, then schedule again
	for round := 0; round < 2; round++ {
		// truncate schedule suffixes
		for n := len(best.Sched) / 2; n >= 1; n /= 2 {
			for len(best.Sched) >= n {
				if !try(best.Gen, best.Sched[:len(best.Sched)-n]) {
					break
				}
			}
		}
		shrinkList(func() []uint32 { return best.Gen }, func(l []uint32) ([]uint32, []uint32) { return l, best.Sched })
		shrinkList(func() []uint32 { return best.Sched }, func(l []uint32) ([]uint32, []uint32) { return best.Gen, l })
	}
	best.Minimised = true
	return &best, attempts
}

func trimZeros(l []uint32) []uint32 {
	n := len(l)
	for n > 0 && l[n-1] == 0 {
		n--
	}
	return append([]uint32(nil), l[:n]...)
}

// resetGlobals is called before every bubble; scenario files add to resetHooks.
var resetHooks []func()

func resetGlobals() {
	for _, f := range resetHooks {
		f()
	}
}

// Short renders a byte string for messages.
func Short(b []byte) string {
	s := fmt.Sprintf("%q", b)
	if len(s) > 80 {
		s = s[:60] + "..." + fmt.Sprintf("(%dB)", len(b))
	}
	return s
}

func envInt(name string, def int) int {
	v := os.Getenv(name)
	if v == "" {
		return def
	}
	var n int
	fmt.Sscanf(strings.TrimSpace(v), "%d", &n)
	return n
}
