package crsim

// Race pass (DESIGN.md 3.8): in a binary built with -race the simulator hides its own synchronisation from the race detector
// (simrt.SyncOff), so the detector sees exactly the happens-before relation the relay's own locks, channels, atomics and go
// statements create, while the seeded scheduler decides the interleaving.  The detector's reports are harvested after every
// case.  Only one kind is a violation: unsynchronised concurrent access to a Go map from two relay goroutines, which the Go
// runtime answers with "fatal error: concurrent map writes / read and map write" (or silent corruption) whenever the two
// accesses overlap on real hardware - the statement-granular schedule of the simulator itself cannot overlap them.  Every
// other race between two relay goroutines is counted as a probe (evidence), not judged.

import (
	"fmt"
	"io"
	"os"
	"regexp"
	"sort"
	"strings"

	"crsim/simrt"
)

var (
	raceLogPath string
	raceLogOff  int64
)

// raceLogInit is called by TestMain with the path prefix given to GORACE=log_path.
func raceLogInit() {
	if p := os.Getenv("CRSIM_RACELOG"); p != "" && simrt.RaceBuild {
		raceLogPath = fmt.Sprintf("%s.%d", p, os.Getpid())
	}
}

type raceReport struct {
	tops   []string   // innermost frame outside the Go runtime of each of the two accesses, "func file:line"
	stacks [][]string // function names of the two access stacks, innermost first
	isMap  bool
	relay2 bool // both accesses are made by relay code
}

// a runtime table change on one side, the dispatch path on the other (C18)
var (
	reChangeFn   = regexp.MustCompile(`table\.\(\*Table\)\.(Add|Del|Update)|imperatives\.Apply`)
	reDispatchFn = regexp.MustCompile(`\)\.Dispatch(Aggregate)?\(\)$`)
)

func hasFrame(stack []string, re *regexp.Regexp) bool {
	for _, f := range stack {
		if re.MatchString(f) {
			return true
		}
	}
	return false
}

func (r *raceReport) changeVsDispatch() bool {
	if len(r.stacks) != 2 {
		return false
	}
	a, b := r.stacks[0], r.stacks[1]
	return (hasFrame(a, reChangeFn) && !hasFrame(a, reDispatchFn) && hasFrame(b, reDispatchFn)) ||
		(hasFrame(b, reChangeFn) && !hasFrame(b, reDispatchFn) && hasFrame(a, reDispatchFn))
}

var (
	reAccess = regexp.MustCompile(`^(WARNING: DATA RACE\n)?(Write|Read|Previous write|Previous read) at `)
	reMapFn  = regexp.MustCompile(`^(runtime\.(map|evacuate|growWork)|internal/runtime/maps\.)`)
)

const relayMod = "github.com/grafana/carbon-relay-ng/"

func parseRaceReports(txt string) []raceReport {
	var out []raceReport
	for _, rep := range strings.Split(txt, "==================\n") {
		if !strings.Contains(rep, "DATA RACE") {
			continue
		}
		r := raceReport{relay2: true}
		n := 0
		for _, sec := range strings.Split(rep, "\n\n") {
			sec = strings.TrimSpace(sec)
			if !reAccess.MatchString(sec) {
				continue
			}
			n++
			lines := strings.Split(sec, "\n")
			top := ""
			var stack []string
			for i := 1; i < len(lines); i++ {
				if fn := strings.TrimSpace(lines[i]); strings.HasSuffix(fn, ")") && !strings.Contains(fn, " ") {
					stack = append(stack, fn)
				}
			}
			r.stacks = append(r.stacks, stack)
			first := 1
			if strings.HasPrefix(lines[0], "WARNING") {
				first = 2 // the first access of a report follows the banner line
			}
			for i := first; i+1 < len(lines); i += 2 {
				fn := strings.TrimSpace(lines[i])
				if !strings.HasSuffix(fn, ")") {
					break
				}
				if reMapFn.MatchString(fn) {
					r.isMap = true
				}
				if strings.HasPrefix(fn, "runtime.") || strings.HasPrefix(fn, "internal/runtime/") {
					continue
				}
				loc := strings.TrimSpace(lines[i+1])
				if j := strings.Index(loc, " +0x"); j >= 0 {
					loc = loc[:j]
				}
				loc = strings.TrimPrefix(loc, relayMod[:len(relayMod)-1]+"@v0.0.0/")
				top = strings.TrimPrefix(strings.TrimSuffix(fn, "()"), relayMod) + " " + loc
				if !strings.HasPrefix(fn, relayMod) || strings.Contains(fn, ".Verif") {
					r.relay2 = false
				}
				break
			}
			if top == "" {
				r.relay2 = false
			}
			r.tops = append(r.tops, top)
		}
		if n == 2 {
			sort.Strings(r.tops)
			out = append(out, r)
		}
		_ = n
	}
	return out
}

// harvestRaces reads what the race detector reported since the previous case and files it under this one.
func harvestRaces(o *Outcome) {
	if raceLogPath == "" {
		return
	}
	f, err := os.Open(raceLogPath)
	if err != nil {
		return // nothing reported yet
	}
	defer f.Close()
	f.Seek(raceLogOff, io.SeekStart)
	b, _ := io.ReadAll(f)
	raceLogOff += int64(len(b))
	for _, r := range parseRaceReports(string(b)) {
		if !r.relay2 {
			o.Probes["race.involving_harness_or_simulator(ignored)"]++
			continue
		}
		desc := strings.Join(r.tops, "  <->  ")
		if !r.isMap && o.Case.Prop == "C18" && r.changeVsDispatch() {
			// a table change writes memory the dispatch path reads (or the reverse) and nothing orders the two: the metric can
			// be processed against a half-applied change (torn multi-word values, some fields old and some new)
			o.Probes["race.relay_change_vs_dispatch"]++
			if o.Class == "" {
				o.Class = "C18:unsynchronised-change"
				o.Msg = "a runtime table change and the dispatch path access the same memory without synchronisation, so a metric can be processed against a half-applied change: " + desc + " (line numbers are those of the instrumented copy)"
			}
			continue
		}
		if !r.isMap {
			o.Probes["race.relay_other(not judged): "+desc]++
			continue
		}
		o.Probes["race.relay_map"]++
		if o.Class == "" {
			o.Class = o.Case.Prop + ":concurrent-map-access"
			o.Msg = "two relay goroutines access the same map without synchronisation (the Go runtime aborts the process with \"concurrent map writes\" / \"concurrent map read and map write\" when they overlap): " + desc + " (line numbers are those of the instrumented copy)"
		}
	}
}
