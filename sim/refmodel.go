package crsim

// Reference models (DESIGN.md 5): written from the property statements and docs/*.md,
// never from the code under test; they take only public inputs.

import (
	"bytes"
	"crypto/md5"
	"fmt"
	"regexp"
	"sort"
	"strings"

	"crsim/simrt"

	m20 "github.com/metrics20/go-metrics20/carbon20"
)

// FilterSpec is a filter as the user writes it.
type FilterSpec struct {
	Prefix    string `json:"prefix,omitempty"`
	NotPrefix string `json:"notPrefix,omitempty"`
	Sub       string `json:"sub,omitempty"`
	NotSub    string `json:"notSub,omitempty"`
	Regex     string `json:"regex,omitempty"`
	NotRegex  string `json:"notRegex,omitempty"`
}

func (f FilterSpec) Empty() bool { return f == FilterSpec{} }

var reCacheRef = map[string]*regexp.Regexp{}

func refRegexp(expr string) *regexp.Regexp {
	if re, ok := reCacheRef[expr]; ok {
		return re
	}
	re, err := regexp.Compile(expr)
	if err != nil {
		re = nil
	}
	reCacheRef[expr] = re
	return re
}

// RefMatch is the documented conjunction, evaluated on the metric name only.
func RefMatch(f FilterSpec, name []byte) bool {
	if f.Prefix != "" && !bytes.HasPrefix(name, []byte(f.Prefix)) {
		return false
	}
	if f.NotPrefix != "" && bytes.HasPrefix(name, []byte(f.NotPrefix)) {
		return false
	}
	if f.Sub != "" && !bytes.Contains(name, []byte(f.Sub)) {
		return false
	}
	if f.NotSub != "" && bytes.Contains(name, []byte(f.NotSub)) {
		return false
	}
	if f.Regex != "" {
		if re := refRegexp(f.Regex); re == nil || !re.Match(name) {
			return false
		}
	}
	if f.NotRegex != "" {
		if re := refRegexp(f.NotRegex); re != nil && re.Match(name) {
			return false
		}
	}
	return true
}

// RwSpec is a rewriter as the user writes it.
type RwSpec struct {
	Old string `json:"old"`
	New string `json:"new"`
	Not string `json:"not,omitempty"`
	Max int    `json:"max"`
}

func isSlashed(s string) bool { return len(s) > 1 && s[0] == '/' && s[len(s)-1] == '/' }

// RefRewrite: literal rules replace the first max occurrences (-1 = all); /regex/ rules
// replace every match with ${n} expansion; a rule is skipped when its not-clause matches.
func RefRewrite(r RwSpec, name []byte) []byte {
	if r.Not != "" {
		if isSlashed(r.Not) {
			if re := refRegexp(r.Not[1 : len(r.Not)-1]); re != nil && re.Match(name) {
				return name
			}
		} else if strings.Contains(string(name), r.Not) {
			return name
		}
	}
	if isSlashed(r.Old) {
		re := refRegexp(r.Old[1 : len(r.Old)-1])
		if re == nil {
			return name
		}
		var out []byte
		last := 0
		for _, m := range re.FindAllSubmatchIndex(name, -1) {
			out = append(out, name[last:m[0]]...)
			out = re.Expand(out, []byte(r.New), name, m)
			last = m[1]
		}
		return append(out, name[last:]...)
	}
	s := string(name)
	var b strings.Builder
	n := 0
	for {
		i := strings.Index(s, r.Old)
		if i < 0 || (r.Max >= 0 && n >= r.Max) {
			break
		}
		b.WriteString(s[:i])
		b.WriteString(r.New)
		s = s[i+len(r.Old):]
		n++
	}
	b.WriteString(s)
	return []byte(b.String())
}

// Validation levels by the names users write in the configuration.
func RefLegacyLevel(name string) m20.ValidationLevelLegacy {
	switch name {
	case "strict":
		return m20.StrictLegacy
	case "none":
		return m20.NoneLegacy
	}
	return m20.MediumLegacy
}

func RefM20Level(name string) m20.ValidationLevelM20 {
	if name == "none" {
		return m20.NoneM20
	}
	return m20.MediumM20
}

// RefValid reports whether a line passes validation at the named levels.
func RefValid(line []byte, legacy, m20lvl string) (key []byte, ts uint32, err error) {
	k, _, t, e := m20.ValidatePacket(line, RefLegacyLevel(legacy), RefM20Level(m20lvl))
	return k, t, e
}

// AggSpec is an aggregation rule as the user writes it.
type AggSpec struct {
	Fun      string     `json:"fun"`
	F        FilterSpec `json:"filter"`
	OutFmt   string     `json:"format"`
	Cache    bool       `json:"cache"`
	Interval uint       `json:"interval"`
	Wait     uint       `json:"wait"`
	DropRaw  bool       `json:"dropRaw"`
}

// RefAggKey returns the expanded output name if the aggregation consumes this metric name.
func RefAggKey(a AggSpec, name []byte) (string, bool) {
	if !RefMatch(a.F, name) {
		return "", false
	}
	re := refRegexp(a.F.Regex)
	if re == nil {
		return "", false
	}
	m := re.FindSubmatchIndex(name)
	if m == nil {
		return "", false
	}
	return string(re.Expand(nil, []byte(a.OutFmt), name, m)), true
}

// DestSpec / RouteSpec / TablePlan describe a routing table as configured.
type DestSpec struct {
	Addr string     `json:"addr"`
	F    FilterSpec `json:"filter"`
}

type RouteSpec struct {
	Type  string     `json:"type"` // sendAllMatch sendFirstMatch consistentHashing capture
	Key   string     `json:"key"`
	F     FilterSpec `json:"filter"`
	Dests []DestSpec `json:"dests,omitempty"`
}

type TablePlan struct {
	Legacy    string       `json:"validation_level_legacy"`
	M20       string       `json:"validation_level_m20"`
	Order     bool         `json:"validate_order"`
	Blacklist []FilterSpec `json:"blacklist"`
	Rewriters []RwSpec     `json:"rewriters"`
	Aggs      []AggSpec    `json:"aggregations"`
	Routes    []RouteSpec  `json:"routes"`
}

// Verdict is what the model predicts for one input line.
type Verdict struct {
	Invalid     bool
	Blacklisted bool
	DroppedRaw  bool
	Unroutable  bool
	Final       []byte   // forwarded line
	Name        []byte   // rewritten name
	AggIn       []int    // aggregations (indexes) it contributes to
	AggKeys     []string // expanded names, parallel to AggIn
	Routes      []int    // routes it is handed to
	Dests       [][]int  // per entry of Routes: destination indexes that get it
}

// RefDispatch predicts the fate of one raw input line (order validation excluded).
func RefDispatch(tp *TablePlan, line []byte, ring func(ri int, name []byte) int) Verdict {
	var v Verdict
	if _, _, err := RefValid(line, tp.Legacy, tp.M20); err != nil {
		v.Invalid = true
		return v
	}
	fields := bytes.Fields(line)
	name := fields[0]
	for _, b := range tp.Blacklist {
		if RefMatch(b, name) {
			v.Blacklisted = true
			return v
		}
	}
	for _, rw := range tp.Rewriters {
		name = RefRewrite(rw, name)
	}
	v.Name = name
	for i, a := range tp.Aggs {
		if key, ok := RefAggKey(a, name); ok {
			v.AggIn = append(v.AggIn, i)
			v.AggKeys = append(v.AggKeys, key)
			if a.DropRaw {
				v.DroppedRaw = true
				return v
			}
		}
	}
	v.Final = []byte(string(name) + " " + string(fields[1]) + " " + string(fields[2]))
	RefRoute(tp, name, &v, ring)
	return v
}

// RefRoute fills the routing part of a verdict for a (possibly aggregate) name.
func RefRoute(tp *TablePlan, name []byte, v *Verdict, ring func(ri int, name []byte) int) {
	for ri, r := range tp.Routes {
		if !RefMatch(r.F, name) {
			continue
		}
		v.Routes = append(v.Routes, ri)
		var ds []int
		switch r.Type {
		case "sendAllMatch":
			for di, d := range r.Dests {
				if RefMatch(d.F, name) {
					ds = append(ds, di)
				}
			}
		case "sendFirstMatch":
			for di, d := range r.Dests {
				if RefMatch(d.F, name) {
					ds = append(ds, di)
					break
				}
			}
		case "consistentHashing":
			ds = append(ds, ring(ri, name))
		}
		v.Dests = append(v.Dests, ds)
	}
	if len(v.Routes) == 0 {
		v.Unroutable = true
	}
}

// ---- Carbon's consistent hash ring (from carbon's hashing.py), independent of the relay's ----

type ringEntry struct {
	pos  int
	host string
	inst string // "" = None
	dest int
}

// RefRing is carbon's ConsistentHashRing with 100 replicas.
type RefRing struct {
	entries []ringEntry
}

func refRingPos(key string) int {
	h := md5.Sum([]byte(key))
	return int(h[0])<<8 | int(h[1])
}

// NewRefRing builds the ring for destinations given as "host:port" or "host:port:instance".
func NewRefRing(addrs []string) *RefRing {
	r := &RefRing{}
	for di, a := range addrs {
		parts := strings.Split(a, ":")
		host := parts[0]
		inst := ""
		if len(parts) == 3 {
			inst = parts[2]
		}
		for i := 0; i < 100; i++ {
			var k string
			if inst == "" {
				k = fmt.Sprintf("('%s', None):%d", host, i)
			} else {
				k = fmt.Sprintf("('%s', '%s'):%d", host, inst, i)
			}
			r.entries = append(r.entries, ringEntry{refRingPos(k), host, inst, di})
		}
	}
	// python sorts tuples (position, (server, instance)); None sorts... carbon never mixes None with str for one host
	sort.SliceStable(r.entries, func(i, j int) bool {
		a, b := r.entries[i], r.entries[j]
		if a.pos != b.pos {
			return a.pos < b.pos
		}
		if a.host != b.host {
			return a.host < b.host
		}
		return a.inst < b.inst
	})
	return r
}

// Owner returns the destination index owning the key: first entry at or after the key's position, wrapping.
func (r *RefRing) Owner(key []byte) int {
	p := refRingPos(string(key))
	i := sort.Search(len(r.entries), func(i int) bool { return r.entries[i].pos >= p })
	if i == len(r.entries) {
		i = 0
	}
	return r.entries[i].dest
}

// ---- generators shared by the table scenarios ----

var nameFrags = []string{"a", "ab", "abc", "ac", "b", "foo", "bar", "x1", "5", "servers", "dc1", "cpu", "aab", "a-b", "A_b"}

func genName(g *simrt.Choices) string {
	n := 1 + g.Intn(4)
	parts := make([]string, n)
	for i := range parts {
		parts[i] = nameFrags[g.Pick(len(nameFrags))]
	}
	if g.Bool(0.08) {
		// Graphite tolerates a leading dot and the validator's key drops it, but filters, rewriters and the forwarded line
		// work on the name as received
		return "." + strings.Join(parts, ".")
	}
	return strings.Join(parts, ".")
}

var regexShapes = []string{
	`^ab?c`, `^foo|bar`, `^a\.*b`, `^a{0,2}b`, `abc`, `^[a-c]+\.`, `\.cpu$`, `^servers\.(dc[0-9]+)\.`, `(foo|bar)\.`,
	`^x1`, `5`, `^a\.b`, `b$`, `^a\.ab?\.`, `^foo\.(.*)`, `^(a|ab)\.(.+)$`, `^ab*`, `^a\.?b`, `^abc?\.foo`, `^servers\.dc\d`,
	`^\w+\.5`, `cpu|5`, `^a|ab`, `^(?i)AB`, `^foo\.ba+r`, `^.+\.cpu`, `^ab|^ac`, `^a+$`,
}

func genRegex(g *simrt.Choices) string {
	if g.Bool(0.6) {
		return regexShapes[g.Pick(len(regexShapes))]
	}
	// composed: anchor? + literal head + optional quantifier + tail
	s := ""
	if g.Bool(0.7) {
		s = "^"
	}
	head := nameFrags[g.Pick(len(nameFrags))]
	s += regexp.QuoteMeta(head)
	s += []string{"", "?", "*", "+", "{0,1}", `\.`, `\.?`, `\.*`, "|" + nameFrags[g.Pick(len(nameFrags))]}[g.Pick(9)]
	s += []string{"", nameFrags[g.Pick(len(nameFrags))], `\.`, ".*", "$"}[g.Pick(5)]
	if _, err := regexp.Compile(s); err != nil {
		return "abc"
	}
	return s
}

func genFilter(g *simrt.Choices, density float64) FilterSpec {
	var f FilterSpec
	frag := func() string {
		if g.Bool(0.5) {
			return nameFrags[g.Pick(len(nameFrags))]
		}
		n := genName(g)
		return n[:1+g.Intn(len(n))]
	}
	if g.Bool(density) {
		f.Prefix = frag()
	}
	if g.Bool(density / 2) {
		f.NotPrefix = frag()
	}
	if g.Bool(density) {
		f.Sub = frag()
	}
	if g.Bool(density / 2) {
		f.NotSub = frag()
	}
	if g.Bool(density) {
		f.Regex = genRegex(g)
	}
	if g.Bool(density / 2) {
		f.NotRegex = genRegex(g)
	}
	return f
}
