package crsim

// C18: runtime table changes are atomic with respect to traffic, and the table view
// reflects exactly the sequence of changes applied.

import (
	"encoding/json"
	"fmt"
	"strings"
	"time"

	"crsim/simnet"
	"crsim/simrt"

	"github.com/grafana/carbon-relay-ng/aggregator"
	"github.com/grafana/carbon-relay-ng/destination"
	"github.com/grafana/carbon-relay-ng/rewriter"
)

func init() { Register("C18", scenC18) }

type c18Op struct {
	Kind string     `json:"k"`
	Key  string     `json:"key,omitempty"`
	Idx  int        `json:"idx,omitempty"`
	F    FilterSpec `json:"f,omitempty"`
	Rw   *RwSpec    `json:"rw,omitempty"`
	Addr string     `json:"addr,omitempty"`
	Set  []string   `json:"set,omitempty"`           // modRoute/modDest: which options the command names
	Bad  bool       `json:"invalid_regex,omitempty"` // modRoute/modDest: one of several named options has a value that does not compile: the command must fail and change nothing
}

type c18Plan struct {
	Table   TablePlan `json:"table"`
	Ops     []c18Op   `json:"ops"`
	Ops2    []c18Op   `json:"ops_of_second_admin,omitempty"`
	Duel    bool      `json:"both_admins_on_one_route,omitempty"`
	Adder2  bool      `json:"second_admin_adds_routes,omitempty"`
	Clients int       `json:"clients"`
	Lines   int       `json:"lines_per_client"`
}

func cloneTP(tp *TablePlan) *TablePlan {
	b, _ := json.Marshal(tp)
	var c TablePlan
	json.Unmarshal(b, &c)
	return &c
}

var filterKeys = []string{"prefix", "notPrefix", "sub", "notSub", "regex", "notRegex"}

// filterOpts renders the options a "modRoute key opt=val ..." command names; the others keep their value.
func filterOpts(f FilterSpec, set []string) map[string]string {
	all := map[string]string{"prefix": f.Prefix, "notPrefix": f.NotPrefix, "sub": f.Sub, "notSub": f.NotSub, "regex": f.Regex, "notRegex": f.NotRegex}
	out := map[string]string{}
	for _, k := range set {
		out[k] = all[k]
	}
	return out
}

// mergeFilter is the documented effect of such a command on the stored filter.
func mergeFilter(old, f FilterSpec, set []string) FilterSpec {
	for _, k := range set {
		switch k {
		case "prefix":
			old.Prefix = f.Prefix
		case "notPrefix":
			old.NotPrefix = f.NotPrefix
		case "sub":
			old.Sub = f.Sub
		case "notSub":
			old.NotSub = f.NotSub
		case "regex":
			old.Regex = f.Regex
		case "notRegex":
			old.NotRegex = f.NotRegex
		}
	}
	return old
}

func scenC18(x *Exec) {
	g := x.Gen
	cfg := SwarmConfig(g)
	if cfg.PreemptP < 0.2 && g.Bool(0.7) {
		cfg.PreemptP = []float64{0.2, 0.6}[g.Pick(2)]
		cfg.MaxBudget = []int{3, 10, 40}[g.Pick(3)]
		cfg.SwitchP = 0.5
	}
	p := c18Plan{}
	tp := TablePlan{Legacy: "medium", M20: "medium"}
	for i, n := 0, g.Intn(3); i < n; i++ {
		f := genFilter(g, 0.2)
		if f.Empty() {
			f.Prefix = "foo.bar"
		}
		tp.Blacklist = append(tp.Blacklist, f)
	}
	for i, n := 0, g.Intn(3); i < n; i++ {
		tp.Rewriters = append(tp.Rewriters, RwSpec{Old: nameFrags[g.Pick(len(nameFrags))], New: []string{"R", "q", "z.z"}[g.Pick(3)], Max: -1})
	}
	nr := 2 + g.Intn(4)
	addrN := 0
	newDest := func(ri int) DestSpec {
		addrN++
		return DestSpec{Addr: fmt.Sprintf("10.3.%d.%d:2003", ri, addrN), F: genFilter(g, 0.15)}
	}
	for i := 0; i < nr; i++ {
		r := RouteSpec{Key: fmt.Sprintf("r%d", i), F: genFilter(g, 0.15)}
		switch g.Pick(5) {
		case 0:
			r.Type = "sendAllMatch"
		case 1:
			r.Type = "sendFirstMatch"
		case 2:
			r.Type = "consistentHashing"
		default:
			r.Type = "capture"
		}
		if r.Type != "capture" {
			nd := 1 + g.Intn(3)
			if r.Type == "consistentHashing" {
				nd = 2 + g.Intn(2)
			}
			for d := 0; d < nd; d++ {
				ds := newDest(i)
				if r.Type == "consistentHashing" {
					ds.F = FilterSpec{}
				}
				r.Dests = append(r.Dests, ds)
			}
		}
		tp.Routes = append(tp.Routes, r)
	}
	p.Table = tp
	nops := 3 + g.Intn(18)
	nextKey := nr
	for i := 0; i < nops; i++ {
		var op c18Op
		if g.Bool(0.2) {
			// back-to-back pairs whose halves only make sense together: a line must see both or neither
			frag := nameFrags[g.Pick(len(nameFrags))]
			switch g.Pick(3) {
			case 0:
				p.Ops = append(p.Ops, c18Op{Kind: "addBlack", F: FilterSpec{Sub: frag}})
				op = c18Op{Kind: "addRoute", Key: fmt.Sprintf("r%d", nextKey), F: FilterSpec{Sub: frag}}
			case 1:
				p.Ops = append(p.Ops, c18Op{Kind: "addRw", Rw: &RwSpec{Old: frag, New: "Z9", Max: -1}})
				op = c18Op{Kind: "addRoute", Key: fmt.Sprintf("r%d", nextKey), F: FilterSpec{Sub: "Z9"}}
			default:
				p.Ops = append(p.Ops, c18Op{Kind: "addRoute", Key: fmt.Sprintf("r%d", nextKey), F: FilterSpec{}})
				nextKey++
				op = c18Op{Kind: "addRoute", Key: fmt.Sprintf("r%d", nextKey), F: FilterSpec{}}
			}
			nextKey++
			p.Ops = append(p.Ops, op)
			continue
		}
		switch g.Pick(14) {
		case 0:
			op = c18Op{Kind: "addRoute", Key: fmt.Sprintf("r%d", nextKey), F: genFilter(g, 0.15)}
			nextKey++
		case 1, 2:
			op = c18Op{Kind: "delRoute", Key: fmt.Sprintf("r%d", g.Intn(nextKey+1))}
		case 3:
			f := genFilter(g, 0.25)
			if f.Empty() {
				f.Sub = "5"
			}
			op = c18Op{Kind: "addBlack", F: f}
		case 4, 5:
			op = c18Op{Kind: "delBlack", Idx: g.Intn(4)}
		case 6:
			op = c18Op{Kind: "addRw", Rw: &RwSpec{Old: nameFrags[g.Pick(len(nameFrags))], New: "W", Max: -1}}
		case 7:
			op = c18Op{Kind: "delRw", Idx: g.Intn(4)}
		case 8:
			op = c18Op{Kind: "modRoute", Key: fmt.Sprintf("r%d", g.Intn(nextKey)), F: genFilter(g, 0.4)}
		case 9:
			op = c18Op{Kind: "modDest", Key: fmt.Sprintf("r%d", g.Intn(nextKey)), Idx: g.Intn(3), F: genFilter(g, 0.4)}
		case 10, 11:
			op = c18Op{Kind: "delDest", Key: fmt.Sprintf("r%d", g.Intn(nextKey)), Idx: g.Intn(4)}
		case 12:
			ri := g.Intn(nextKey)
			d := newDest(ri)
			op = c18Op{Kind: "addDest", Key: fmt.Sprintf("r%d", ri), Addr: d.Addr, F: d.F}
		default:
			op = c18Op{Kind: []string{"addAgg", "delAgg"}[g.Pick(2)], Idx: g.Intn(2)}
		}
		if op.Kind == "modRoute" || op.Kind == "modDest" {
			for _, k := range filterKeys {
				if g.Bool(0.35) {
					op.Set = append(op.Set, k)
				}
			}
			if len(op.Set) == 0 {
				op.Set = []string{filterKeys[g.Pick(6)]}
			}
			if g.Bool(0.15) {
				// several options at once, one of them unusable: all or nothing
				op.Bad = true
				op.Set = nil
				for _, k := range filterKeys[:4] {
					if g.Bool(0.6) {
						op.Set = append(op.Set, k)
					}
				}
				if g.Bool(0.5) {
					op.F.Regex = "a(b"
					op.Set = append(op.Set, "regex")
				} else {
					op.F.NotRegex = "x[y"
					op.Set = append(op.Set, "notRegex")
				}
			}
		}
		p.Ops = append(p.Ops, op)
	}
	if duel := g.Bool(0.15); duel {
		// two admins work on one route at once, without pauses: one on its destinations, the other on its filter
		var real []RouteSpec
		for _, r := range tp.Routes {
			if r.Type != "capture" {
				real = append(real, r)
			}
		}
		if len(real) > 0 {
			r := real[g.Pick(len(real))]
			p.Ops, p.Duel = nil, true
			for i, n := 0, 4+g.Intn(8); i < n; i++ {
				op := c18Op{Kind: "modDest", Key: r.Key, Idx: g.Intn(len(r.Dests)), F: genFilter(g, 0.4), Set: []string{filterKeys[g.Pick(6)]}}
				if r.Type == "consistentHashing" {
					op.F, op.Set = FilterSpec{}, []string{"prefix"} // hashing destinations carry no filter in this scenario
				}
				p.Ops = append(p.Ops, op)
			}
		}
	}
	if p.Duel || g.Bool(0.4) {
		// a second admin connection changes route filters at the same time.  It only touches routes the first admin neither
		// deletes nor re-filters, so every cell of the table still has a single writer and the expected view is determinate;
		// the first admin may well work on the destinations of the very same routes.
		taken := map[string]bool{}
		for _, op := range p.Ops {
			if op.Kind == "delRoute" || op.Kind == "modRoute" {
				taken[op.Key] = true
			}
		}
		var free []string
		for _, r := range tp.Routes {
			if !taken[r.Key] {
				free = append(free, r.Key)
			}
		}
		// preferably the routes whose destinations the first admin works on: that is where two changes meet inside one route
		var hot []string
		for _, op := range p.Ops {
			if op.Kind == "modDest" || op.Kind == "addDest" || op.Kind == "delDest" {
				for _, k := range free {
					if k == op.Key {
						hot = append(hot, k)
					}
				}
			}
		}
		if !p.Duel && g.Bool(0.5) {
			// variant: the second admin adds routes (keys of its own), i.e. both admins change the table's own lists at
			// once; with two adders the listing order of the new routes is either one's, so the view is compared by key
			p.Adder2 = true
			for i, n := 0, 2+g.Intn(5); i < n; i++ {
				p.Ops2 = append(p.Ops2, c18Op{Kind: "addRoute", Key: fmt.Sprintf("rz%d", i), F: genFilter(g, 0.3)})
			}
			free = nil
		}
		for i, n := 0, 2+g.Intn(8); i < n && len(free) > 0; i++ {
			key := free[g.Pick(len(free))]
			if len(hot) > 0 && g.Bool(0.7) {
				key = hot[g.Pick(len(hot))]
			}
			op := c18Op{Kind: "modRoute", Key: key, F: genFilter(g, 0.4)}
			for _, k := range filterKeys {
				if g.Bool(0.35) {
					op.Set = append(op.Set, k)
				}
			}
			if len(op.Set) == 0 {
				op.Set = []string{filterKeys[g.Pick(6)]}
			}
			p.Ops2 = append(p.Ops2, op)
		}
	}
	p.Clients = 1 + g.Intn(3)
	p.Lines = 10 + g.Intn(60)
	x.Out.Sample = p
	cfg.Horizon = time.Hour
	prop := "C18"

	s := x.Bubble(cfg, func(s *simrt.Sim) {
		nc := simnet.DefaultConfig()
		nc.SockBuf = 1 << 20
		nw := simnet.NewNet(nc)
		simnet.Use(nw)
		var bt *builtTable
		var berr error
		started := false
		cond := simrt.NewCond()
		s.Spawn("relay-boot", "relay", "relay1", func() {
			initRelayGlobals()
			tableFlushMs = 20
			bt, berr = buildTable(s, nw, &p.Table)
			simrt.Yield("boot")
			started = true
			cond.Broadcast()
		})
		cond.Wait(func() bool { return started }, time.Time{})
		if berr != nil {
			s.Infra("%v", berr)
			return
		}
		bt.waitOnline()

		var clock int64
		versions := []*TablePlan{cloneTP(&p.Table)}
		type opStamp struct{ s, e int64 }
		var stamps []opStamp
		relaxed := map[string]bool{} // destination addresses that were shut down at some point (in-flight loss allowed)
		caps := map[string]*capRoute{}
		for ri, c := range bt.Caps {
			caps[p.Table.Routes[ri].Key] = c
		}
		eps := bt.Eps
		var naggs int
		seqErr := ""

		// an admin task applies its operations one after the other, with seeded pauses.  The model version of an operation is
		// appended when the operation starts (so that an operation of the other admin that starts meanwhile builds on it); the
		// stamp records when it started and when it returned.
		adminsRunning, adminsDone, inflight := 0, 0, 0
		runAdmin := func(ops []c18Op) {
			for _, op := range ops {
				if !p.Duel && g.Bool(0.3) {
					simrt.Sleep(time.Duration(g.Intn(3000)) * time.Microsecond)
				}
				cur := cloneTP(versions[len(versions)-1])
				clock++
				versions = append(versions, cur)
				stamps = append(stamps, opStamp{s: clock, e: 1 << 62})
				si := len(stamps) - 1
				inflight++
				var err error
				wantErr := false
				find := func(key string) int {
					for i, r := range cur.Routes {
						if r.Key == key {
							return i
						}
					}
					return -1
				}
				switch op.Kind {
				case "addRoute":
					// (the model is always updated before the first call into relay code: such a call can be preempted, and an
					// operation of the other admin that starts meanwhile builds on this version)
					cur.Routes = append(cur.Routes, RouteSpec{Type: "capture", Key: op.Key, F: op.F})
					m, _ := mkMatcher(op.F)
					c := &capRoute{key: op.Key, m: &m}
					caps[op.Key] = c
					bt.T.AddRoute(c)
				case "delRoute":
					if i := find(op.Key); i >= 0 {
						for _, d := range cur.Routes[i].Dests {
							relaxed[d.Addr] = true
						}
						cur.Routes = append(cur.Routes[:i:i], cur.Routes[i+1:]...)
					}
					err = bt.T.DelRoute(op.Key)
				case "addBlack":
					cur.Blacklist = append(cur.Blacklist, op.F)
					m, _ := mkMatcher(op.F)
					bt.T.AddBlacklist(&m)
				case "delBlack":
					if op.Idx < len(cur.Blacklist) {
						cur.Blacklist = append(cur.Blacklist[:op.Idx:op.Idx], cur.Blacklist[op.Idx+1:]...)
					} else {
						wantErr = true
					}
					err = bt.T.DelBlacklist(op.Idx)
				case "addRw":
					cur.Rewriters = append(cur.Rewriters, *op.Rw)
					rw, _ := rewriter.New(op.Rw.Old, op.Rw.New, op.Rw.Not, op.Rw.Max)
					bt.T.AddRewriter(rw)
				case "delRw":
					if op.Idx < len(cur.Rewriters) {
						cur.Rewriters = append(cur.Rewriters[:op.Idx:op.Idx], cur.Rewriters[op.Idx+1:]...)
					} else {
						wantErr = true
					}
					err = bt.T.DelRewriter(op.Idx)
				case "modRoute":
					if i := find(op.Key); i >= 0 && !op.Bad {
						cur.Routes[i].F = mergeFilter(cur.Routes[i].F, op.F, op.Set)
					} else {
						wantErr = true
					}
					if c, ok := caps[op.Key]; ok && find(op.Key) >= 0 && op.Bad {
						_, err = mkMatcher(mergeFilter(cur.Routes[find(op.Key)].F, op.F, op.Set))
					} else if ok && find(op.Key) >= 0 {
						// capture routes are harness objects: swap their (real) matcher under the same protocol
						m, _ := mkMatcher(cur.Routes[find(op.Key)].F)
						c.m = &m
					} else {
						err = bt.T.UpdateRoute(op.Key, filterOpts(op.F, op.Set))
					}
				case "modDest":
					i := find(op.Key)
					if i >= 0 && cur.Routes[i].Type != "capture" && op.Idx < len(cur.Routes[i].Dests) && !op.Bad {
						cur.Routes[i].Dests[op.Idx].F = mergeFilter(cur.Routes[i].Dests[op.Idx].F, op.F, op.Set)
					} else {
						wantErr = true
					}
					err = bt.T.UpdateDestination(op.Key, op.Idx, filterOpts(op.F, op.Set))
				case "delDest":
					i := find(op.Key)
					if i >= 0 && cur.Routes[i].Type == "consistentHashing" && len(cur.Routes[i].Dests) <= 2 {
						// shrinking a hashing route further is C14's subject (it must not crash); not attempted here
						break
					}
					if i >= 0 && cur.Routes[i].Type != "capture" && op.Idx < len(cur.Routes[i].Dests) {
						relaxed[cur.Routes[i].Dests[op.Idx].Addr] = true
						ds := cur.Routes[i].Dests
						cur.Routes[i].Dests = append(ds[:op.Idx:op.Idx], ds[op.Idx+1:]...)
					} else {
						wantErr = true
					}
					err = bt.T.DelDestination(op.Key, op.Idx)
				case "addDest":
					i := find(op.Key)
					if i >= 0 && cur.Routes[i].Type != "capture" {
						cur.Routes[i].Dests = append(cur.Routes[i].Dests, DestSpec{Addr: op.Addr, F: op.F})
						dm, _ := mkMatcher(op.F)
						dc := fastDestCfg(op.Addr)
						dd, derr := dc.build(op.Key, dm)
						if derr != nil {
							s.Infra("%v", derr)
							return
						}
						ep := NewEndpoint(s, nw, op.Addr)
						ep.Start()
						eps[op.Addr] = ep
						bt.DestCfg[op.Addr] = dc
						rt := bt.T.GetRoute(op.Key)
						if adder, ok := rt.(interface {
							Add(*destination.Destination)
						}); ok {
							adder.Add(dd)
						} else {
							s.Infra("route %s has no Add", op.Key)
							return
						}
					}
				case "addAgg":
					m, _ := mkMatcher(FilterSpec{Regex: "^zzz-never"})
					ag, aerr := aggregator.New("sum", m, "aggz", false, 60, 7200, false, bt.T.In)
					if aerr == nil {
						bt.T.AddAggregator(ag)
						naggs++
					}
				case "delAgg":
					if op.Idx < naggs {
						naggs--
					} else {
						wantErr = true
					}
					err = bt.T.DelAggregator(op.Idx)
				}
				clock++
				stamps[si].e = clock
				inflight--
				simrt.Yield("admin-op-returned")
				if (err != nil) != wantErr && seqErr == "" {
					seqErr = fmt.Sprintf("operation %+v returned error %v, expected error: %v", op, err, wantErr)
				}
				// sequential specification: the table view equals the model after every operation (compared whenever no
				// operation of the other admin is in progress or has started since, so that the expected view is determinate)
				nv := len(versions)
				if inflight != 0 {
					continue
				}
				cur = versions[nv-1]
				snap := bt.T.Snapshot()
				simrt.Yield("snapshot")
				if len(versions) != nv || inflight != 0 {
					continue
				}
				if seqErr == "" {
					seqErr = compareSnapshot(snap.Routes, len(snap.Blacklist), len(snap.Rewriters), len(snap.Aggregators), cur, naggs, p.Adder2)
					if seqErr != "" {
						seqErr = fmt.Sprintf("after operation %+v: %s", op, seqErr)
					}
					for i, b := range snap.Blacklist {
						if seqErr == "" && (b.Prefix != cur.Blacklist[i].Prefix || b.Sub != cur.Blacklist[i].Sub || b.Regex != cur.Blacklist[i].Regex || b.NotRegex != cur.Blacklist[i].NotRegex) {
							seqErr = fmt.Sprintf("after operation %+v: blacklist entry %d is %v, expected %+v", op, i, b, cur.Blacklist[i])
						}
					}
					for i, r := range snap.Rewriters {
						if seqErr == "" && (r.Old != cur.Rewriters[i].Old || r.New != cur.Rewriters[i].New) {
							seqErr = fmt.Sprintf("after operation %+v: rewriter %d is %+v, expected %+v", op, i, r, cur.Rewriters[i])
						}
					}
				}
			}
			adminsDone++
			cond.Broadcast()
		}
		adminsRunning++
		s.Spawn("admin", "admin", "relay1", func() { runAdmin(p.Ops) })
		if len(p.Ops2) > 0 {
			adminsRunning++
			s.Spawn("admin2", "admin", "relay1", func() { runAdmin(p.Ops2) })
			s.Probe("c18.two_admins")
		}

		type lineRec struct {
			id        string // unique value token
			name      string
			call, ret int64
			done      bool
		}
		var recs []*lineRec
		fin := 0
		for c := 0; c < p.Clients; c++ {
			c := c
			s.Spawn(fmt.Sprintf("client%d", c), "client", "harness", func() {
				for i := 0; i < p.Lines; i++ {
					r := &lineRec{id: fmt.Sprint(c*100000 + i), name: genName(g)}
					line := fmt.Sprintf("%s %s %d", r.name, r.id, 946684800+i)
					clock++
					r.call = clock
					recs = append(recs, r)
					bt.T.Dispatch([]byte(line))
					simrt.Yield("dispatched")
					clock++
					r.ret = clock
					r.done = true
					if g.Bool(0.3) {
						simrt.Sleep(time.Duration(g.Intn(800)) * time.Microsecond)
					}
				}
				fin++
				cond.Broadcast()
			})
		}
		adminDone := false
		if !cond.Wait(func() bool { adminDone = adminsDone == adminsRunning; return fin == p.Clients && adminDone }, time.Now().Add(5*time.Minute)) {
			var stuck []string
			for _, r := range recs {
				if !r.done {
					stuck = append(stuck, r.name+" "+r.id)
				}
			}
			s.Fail(prop+":dispatch-hang", "after 5 simulated minutes %d dispatcher(s) / admin(done=%v) have not returned; lines still inside Dispatch: %v\n%s", p.Clients-fin, adminDone, stuck, s.Describe())
			return
		}
		if seqErr == "" {
			// with both admins finished the view must be the result of all their operations
			snap := bt.T.Snapshot()
			simrt.Yield("snapshot")
			if d := compareSnapshot(snap.Routes, len(snap.Blacklist), len(snap.Rewriters), len(snap.Aggregators), versions[len(versions)-1], naggs, p.Adder2); d != "" {
				seqErr = "after all operations: " + d
			}
		}
		if seqErr != "" {
			s.Fail(prop+":table-view", "%s", seqErr)
			return
		}
		simrt.Sleep(300 * time.Millisecond)
		simrt.Quiesce()
		// a destination that dropped lines while its connection was not up yet (added at run time) or
		// because its connection was slow accounts for them in its counters: no exact claim for it
		for addr, dc := range bt.DestCfg {
			for _, v := range versions {
				for _, r := range v.Routes {
					for _, d := range r.Dests {
						if d.Addr == addr {
							k := dc.key(r.Key)
							if counter("dest="+k+".unit=Metric.action=drop.reason=conn_down_no_spool")+counter("dest="+k+".unit=Metric.action=drop.reason=slow_conn") > 0 {
								relaxed[addr] = true
							}
						}
					}
				}
			}
		}

		// observed deliveries per line id: route key -> dest addr ("" for capture) -> count, with the delivered name
		obs := map[string]map[string]map[string]*c18Deliv{}
		note := func(id, key, addr, name string) {
			if obs[id] == nil {
				obs[id] = map[string]map[string]*c18Deliv{}
			}
			if obs[id][key] == nil {
				obs[id][key] = map[string]*c18Deliv{}
			}
			d := obs[id][key][addr]
			if d == nil {
				d = &c18Deliv{Name: name}
				obs[id][key][addr] = d
			}
			d.Count++
		}
		for key, c := range caps {
			for _, call := range c.Calls {
				if name, id, ok := splitDelivered(string(call.copy)); ok {
					note(id, key, "", name)
				}
			}
		}
		addrRoute := map[string]string{}
		for _, v := range versions {
			for _, r := range v.Routes {
				for _, d := range r.Dests {
					addrRoute[d.Addr] = r.Key
				}
			}
		}
		for addr, ep := range eps {
			for _, ec := range ep.Conns {
				ls, _ := ec.Lines()
				for _, l := range ls {
					if name, id, ok := splitDelivered(string(l)); ok {
						note(id, addrRoute[addr], addr, name)
					}
				}
			}
		}
		explained := 0
		for _, r := range recs {
			// versions lo..hi are the candidates: every operation up to lo had returned before the hand-off started (with two
			// admins the returned operations need not form a prefix: only the prefix counts), hi is the last one that had started
			lo, hi := 0, 0
			prefix := true
			for k, st := range stamps {
				if prefix && st.e < r.call {
					lo = k + 1
				} else {
					prefix = false
				}
				if st.s < r.ret {
					hi = k + 1
				}
			}
			why := explainLine(versions, lo, hi, r.name, obs[r.id], relaxed)
			if why != "" {
				s.Fail(prop+":atomicity", "line %q (value %s) overlapping operations %d..%d: %s\nobserved: %s", r.name, r.id, lo+1, hi, why, describeObs(obs[r.id]))
				return
			}
			if hi > lo {
				explained++
			}
		}
		x.Out.Nontrivial = explained > 0 && len(recs) >= 10
		x.Out.StateSig = fmt.Sprintf("ops=%d lines=%d overlapping=%d routes=%d", len(p.Ops), len(recs), explained, len(versions[len(versions)-1].Routes))
		if explained > 0 {
			s.ProbeN("c18.lines_overlapping_an_operation", explained)
		}
	})
	finishRun(x, s, prop)
}

// c18Deliv is one observed delivery of a line at a capture route (addr "") or a destination.
type c18Deliv struct {
	Name  string `json:"name"`
	Count int    `json:"count"`
}

// splitDelivered splits "name value ts" from the right (a rewriter may have emptied the name).
func splitDelivered(l string) (name, id string, ok bool) {
	i := strings.LastIndex(l, " ")
	if i < 0 {
		return "", "", false
	}
	j := strings.LastIndex(l[:i], " ")
	if j < 0 {
		return "", "", false
	}
	return l[:j], l[j+1 : i], true
}

func describeObs(o interface{}) string {
	b, _ := json.Marshal(o)
	return string(b)
}

func compareSnapshot(routes interface{}, nbl, nrw, nagg int, cur *TablePlan, wantAggs int, byKey bool) string {
	b, _ := json.Marshal(routes)
	type snapFilter struct {
		Prefix    string `json:"prefix"`
		NotPrefix string `json:"notPrefix"`
		Sub       string `json:"sub"`
		NotSub    string `json:"notSub"`
		Regex     string `json:"regex"`
		NotRegex  string `json:"notRegex"`
	}
	var rs []struct {
		Key     string     `json:"key"`
		Type    string     `json:"type"`
		Matcher snapFilter `json:"matcher"`
		Dests   []struct {
			Address string     `json:"address"`
			Matcher snapFilter `json:"matcher"`
		} `json:"destination"`
	}
	same := func(a snapFilter, f FilterSpec) bool {
		return a.Prefix == f.Prefix && a.NotPrefix == f.NotPrefix && a.Sub == f.Sub && a.NotSub == f.NotSub && a.Regex == f.Regex && a.NotRegex == f.NotRegex
	}
	json.Unmarshal(b, &rs)
	if len(rs) != len(cur.Routes) {
		return fmt.Sprintf("the table lists %d routes, expected %d", len(rs), len(cur.Routes))
	}
	if byKey {
		// two admins were adding routes at once: the listing order of those is either's
		pos := map[string]int{}
		for i, r := range rs {
			pos[r.Key] = i
		}
		sorted := make([]RouteSpec, len(rs))
		for _, want := range cur.Routes {
			i, ok := pos[want.Key]
			if !ok {
				return fmt.Sprintf("route %q is missing from the table view", want.Key)
			}
			sorted[i] = want
		}
		c2 := *cur
		c2.Routes = sorted
		cur = &c2
	}
	for i, r := range rs {
		if r.Key != cur.Routes[i].Key {
			return fmt.Sprintf("route #%d is %q, expected %q", i, r.Key, cur.Routes[i].Key)
		}
		if cur.Routes[i].Type == "capture" {
			continue
		}
		if !same(r.Matcher, cur.Routes[i].F) {
			return fmt.Sprintf("route %q shows the filter %+v, expected %+v", r.Key, r.Matcher, cur.Routes[i].F)
		}
		if len(r.Dests) != len(cur.Routes[i].Dests) {
			return fmt.Sprintf("route %q lists %d destinations, expected %d", r.Key, len(r.Dests), len(cur.Routes[i].Dests))
		}
		for di, d := range r.Dests {
			if d.Address != cur.Routes[i].Dests[di].Addr {
				return fmt.Sprintf("route %q destination #%d is %q, expected %q", r.Key, di, d.Address, cur.Routes[i].Dests[di].Addr)
			}
			if !same(d.Matcher, cur.Routes[i].Dests[di].F) {
				return fmt.Sprintf("route %q destination #%d shows the filter %+v, expected %+v", r.Key, di, d.Matcher, cur.Routes[i].Dests[di].F)
			}
		}
	}
	if nbl != len(cur.Blacklist) {
		return fmt.Sprintf("the table lists %d blacklist entries, expected %d", nbl, len(cur.Blacklist))
	}
	if nrw != len(cur.Rewriters) {
		return fmt.Sprintf("the table lists %d rewriters, expected %d", nrw, len(cur.Rewriters))
	}
	if nagg != wantAggs {
		return fmt.Sprintf("the table lists %d aggregations, expected %d", nagg, wantAggs)
	}
	return ""
}

// explainLine returns "" if the observed deliveries of one line can be explained by one version of the
// table configuration (lists of blacklist, rewriters, routes) and, independently per route and per
// destination, one version of that cell, all taken from versions lo..hi.
func explainLine(versions []*TablePlan, lo, hi int, rawName string, obs map[string]map[string]*c18Deliv, relaxed map[string]bool) string {
	last := ""
	for vt := lo; vt <= hi; vt++ {
		tp := versions[vt]
		name := []byte(rawName)
		black := false
		for _, b := range tp.Blacklist {
			if RefMatch(b, name) {
				black = true
			}
		}
		if black {
			if len(obs) == 0 {
				return ""
			}
			last = fmt.Sprintf("version %d blacklists it but it was delivered", vt)
			continue
		}
		for _, rw := range tp.Rewriters {
			name = RefRewrite(rw, name)
		}
		ok := true
		inList := map[string]bool{}
		for _, r := range tp.Routes {
			inList[r.Key] = true
		}
		// routes the second admin adds ("rz…") commit in an order of their own relative to the first admin's operations: within
		// the window such a route may already or not yet be in the table whatever version the rest of the table is at
		inWindow := func(key string) (some, all bool, accept bool) {
			all = true
			for v := lo; v <= hi; v++ {
				found := false
				for _, rv := range versions[v].Routes {
					if rv.Key == key {
						found, some = true, true
						if RefMatch(rv.F, name) {
							accept = true
						}
					}
				}
				if !found {
					all = false
				}
			}
			return
		}
		for key := range obs {
			if !inList[key] {
				if some, _, accept := inWindow(key); strings.HasPrefix(key, "rz") && some && accept {
					continue
				}
				ok = false
				last = fmt.Sprintf("version %d of the table has no route %s but it delivered the line", vt, key)
			}
		}
		for _, r := range tp.Routes {
			if !ok {
				break
			}
			if strings.HasPrefix(r.Key, "rz") && len(obs[r.Key]) == 0 {
				if _, all, _ := inWindow(r.Key); !all {
					continue // not (yet) in the table as far as this line is concerned
				}
			}
			// matcher versions of this route within the window
			canAccept, canReject := false, false
			var destVersions [][]DestSpec
			destF := map[string][]FilterSpec{}
			for v := lo; v <= hi; v++ {
				for _, rv := range versions[v].Routes {
					if rv.Key != r.Key {
						continue
					}
					if RefMatch(rv.F, name) {
						canAccept = true
					} else {
						canReject = true
					}
					destVersions = append(destVersions, rv.Dests)
					for _, d := range rv.Dests {
						destF[d.Addr] = append(destF[d.Addr], d.F)
					}
				}
			}
			o := obs[r.Key]
			for _, d := range o {
				if d.Count > 1 {
					return fmt.Sprintf("route %s delivered it %d times", r.Key, d.Count)
				}
				if d.Name != string(name) && ok {
					ok = false
					last = fmt.Sprintf("version %d rewrites the name to %q but %q was delivered", vt, name, d.Name)
				}
			}
			if !ok {
				break
			}
			if r.Type == "capture" {
				switch {
				case len(o) == 0 && !canReject:
					ok = false
					last = fmt.Sprintf("route %s accepts the name in every candidate version but was not called", r.Key)
				case len(o) > 0 && !canAccept:
					ok = false
					last = fmt.Sprintf("route %s rejects the name in every candidate version but was called", r.Key)
				}
				continue
			}
			if len(o) > 0 && !canAccept {
				ok = false
				last = fmt.Sprintf("route %s rejects the name in every candidate version but delivered it", r.Key)
				continue
			}
			// find a destination-list version that explains the per-destination pattern
			found := false
			reason := ""
			for _, list := range destVersions {
				good := true
				inl := map[string]bool{}
				for _, d := range list {
					inl[d.Addr] = true
				}
				for a := range o {
					if !inl[a] {
						good = false
						reason = fmt.Sprintf("destination %s received it but is not in the list", a)
					}
				}
				if !good {
					continue
				}
				accepts := func(a string) (can, cannot bool) {
					for _, f := range destF[a] {
						if RefMatch(f, name) {
							can = true
						} else {
							cannot = true
						}
					}
					return
				}
				if r.Type == "consistentHashing" {
					var addrs []string
					for _, d := range list {
						addrs = append(addrs, d.Addr)
					}
					if len(addrs) == 0 {
						continue
					}
					owner := addrs[NewRefRing(addrs).Owner(name)]
					switch {
					case len(o) > 1:
						good = false
						reason = "a consistentHashing route delivered to more than one destination"
					case len(o) == 1 && o[owner] == nil:
						good = false
						reason = fmt.Sprintf("the ring of %v assigns the name to %s but another destination got it", addrs, owner)
					case len(o) == 0 && !relaxed[owner] && !canReject:
						good = false
						reason = fmt.Sprintf("the ring of %v assigns the name to %s, which did not receive it", addrs, owner)
					}
				} else if r.Type == "sendAllMatch" {
					for _, d := range list {
						can, cannot := accepts(d.Addr)
						got := o[d.Addr] != nil
						if got && !can {
							good = false
							reason = fmt.Sprintf("destination %s received it although its filter rejects in every candidate version", d.Addr)
						}
						if !got && !cannot && !relaxed[d.Addr] && !canReject {
							good = false
							reason = fmt.Sprintf("destination %s accepts it in every candidate version (and so does the route) but did not receive it", d.Addr)
						}
					}
				} else { // sendFirstMatch
					if len(o) > 1 {
						good = false
						reason = "a sendFirstMatch route delivered to more than one destination"
					}
					for _, d := range list {
						can, cannot := accepts(d.Addr)
						if o[d.Addr] != nil {
							if !can {
								good = false
								reason = fmt.Sprintf("destination %s received it although its filter rejects", d.Addr)
							}
							break
						}
						if can && relaxed[d.Addr] && len(o) == 0 {
							// the line may have been handed to this (since removed) destination and died with it
							break
						}
						// skipped: it must have been able to reject
						if !cannot && !relaxed[d.Addr] && !(len(o) == 0 && canReject) {
							good = false
							reason = fmt.Sprintf("destination %s is the first that accepts in every candidate version but was skipped", d.Addr)
							break
						}
					}
				}
				if good {
					found = true
					break
				}
			}
			if len(destVersions) == 0 {
				found = len(o) == 0
			}
			if !found {
				ok = false
				last = fmt.Sprintf("route %s: %s", r.Key, reason)
			}
		}
		if ok {
			return ""
		}
	}
	return last
}
