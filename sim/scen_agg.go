package crsim

// Scenario S4: aggregation buckets (C10) in lockstep and concurrent mode.

import (
	"bytes"
	"fmt"
	"math"
	"sort"
	"strconv"
	"strings"
	"time"

	"crsim/simrt"

	"github.com/grafana/carbon-relay-ng/aggregator"
)

func init() { Register("C10", scenC10) }

type c10Event struct {
	Kind string  `json:"k"` // point advance tick
	Name string  `json:"name,omitempty"`
	Val  float64 `json:"val,omitempty"`
	Off  int     `json:"ts_off,omitempty"` // timestamp = now + Off (seconds)
	Ms   int     `json:"ms,omitempty"`     // advance
	Lag  int     `json:"lag,omitempty"`    // tick value = now - Lag seconds
}

type c10Plan struct {
	Mode     string     `json:"mode"` // lockstep | concurrent
	Fun      string     `json:"fun"`
	Interval uint       `json:"interval"`
	Wait     uint       `json:"wait"`
	Regex    string     `json:"regex"`
	OutFmt   string     `json:"format"`
	Cache    bool       `json:"cache"`
	InBuf    int        `json:"inbuf"`
	Events   []c10Event `json:"events"`
}

var c10Funs = []string{"sum", "avg", "count", "delta", "derive", "last", "max", "min", "stdev", "percentiles"}
var c10Names = []string{"in.a.x", "in.a.y", "in.b.x", "in.b.y", "other.z", "in.c"}

// refAggValue computes the aggregate of the contributed points (value, ts) in processing order.
func refAggValue(fun string, pts [][2]float64) (map[string]float64, bool) {
	n := float64(len(pts))
	vals := make([]float64, len(pts))
	for i, p := range pts {
		vals[i] = p[0]
	}
	one := func(v float64) (map[string]float64, bool) { return map[string]float64{"": v}, true }
	switch fun {
	case "sum":
		s := 0.0
		for i, v := range vals {
			if i == 0 {
				s = v
			} else {
				s += v
			}
		}
		return one(s)
	case "avg":
		s := 0.0
		for i, v := range vals {
			if i == 0 {
				s = v
			} else {
				s += v
			}
		}
		return one(s / n)
	case "count":
		return one(n)
	case "max":
		m := vals[0]
		for _, v := range vals {
			if v > m {
				m = v
			}
		}
		return one(m)
	case "min":
		m := vals[0]
		for _, v := range vals {
			if v < m {
				m = v
			}
		}
		return one(m)
	case "delta":
		mx, mn := vals[0], vals[0]
		for _, v := range vals {
			if v > mx {
				mx = v
			}
			if v < mn {
				mn = v
			}
		}
		return one(mx - mn)
	case "last":
		return one(vals[len(vals)-1])
	case "stdev":
		s := 0.0
		for i, v := range vals {
			if i == 0 {
				s = v
			} else {
				s += v
			}
		}
		mean := s / n
		va := 0.0
		for _, v := range vals {
			va += (v - mean) * (v - mean)
		}
		return one(math.Sqrt(va / n))
	case "derive":
		// rate between the oldest and the newest timestamp of the bucket (first seen wins ties)
		oi, ni := 0, 0
		for i, p := range pts {
			if p[1] > pts[ni][1] {
				ni = i
			}
			if p[1] < pts[oi][1] {
				oi = i
			}
		}
		if pts[ni][1] == pts[oi][1] {
			return nil, false
		}
		return one((pts[ni][0] - pts[oi][0]) / (pts[ni][1] - pts[oi][1]))
	case "percentiles":
		sorted := append([]float64(nil), vals...)
		sort.Float64s(sorted)
		out := map[string]float64{}
		for name, pc := range map[string]float64{"p25": 25, "p50": 50, "p75": 75, "p90": 90, "p95": 95, "p99": 99} {
			// R-6 / Weibull plotting position: rank = p (n+1)
			rank := pc / 100 * (n + 1)
			k := math.Floor(rank)
			switch {
			case rank < 1:
				out[name] = sorted[0]
			case int(k) >= len(sorted):
				out[name] = sorted[len(sorted)-1]
			default:
				out[name] = sorted[int(k)-1] + (rank-k)*(sorted[int(k)]-sorted[int(k)-1])
			}
		}
		return out, true
	}
	return nil, false
}

func scenC10(x *Exec) {
	g := x.Gen
	cfg := SwarmConfig(g)
	p := c10Plan{}
	p.Mode = []string{"lockstep", "lockstep", "concurrent"}[g.Pick(3)]
	p.Fun = c10Funs[g.Pick(len(c10Funs))]
	p.Interval = []uint{10, 1, 2, 5, 60}[g.Pick(5)]
	p.Wait = []uint{5, 0, 1, 10, 120}[g.Pick(5)]
	k := g.Pick(4)
	p.Regex = []string{`^in\.([a-z]+)\.(.*)`, `^in\.(.*)`, `^in\.`, `^in\.([a-z])\.[a-z]$`}[k]
	p.OutFmt = []string{"out.$1", "out.${1}", "out.all", "out.$1.sfx"}[k]
	p.Cache = g.Bool(0.5)
	p.InBuf = []int{2000, 1, 5}[g.Pick(3)]
	if p.Mode == "concurrent" {
		p.Fun = []string{"sum", "count"}[g.Pick(2)]
	}
	nev := 10 + g.Intn(60)
	iv, w := int(p.Interval), int(p.Wait)
	offs := []int{0, 0, 0, -1, 1, -iv, iv, -w, -w - 1, -w + 1, -w - iv, -w - iv + 1, -w + iv, -2 * iv, 2 * iv, -w - 2*iv}
	for i := 0; i < nev; i++ {
		switch g.Pick(8) {
		case 0:
			p.Events = append(p.Events, c10Event{Kind: "advance", Ms: []int{1000, 100, 999, 1001, iv * 1000, (w + 1) * 1000, 500}[g.Pick(7)]})
		case 1, 2:
			p.Events = append(p.Events, c10Event{Kind: "tick", Lag: []int{0, 0, 1, iv}[g.Pick(4)]})
		default:
			p.Events = append(p.Events, c10Event{Kind: "point", Name: c10Names[g.Pick(len(c10Names))], Val: []float64{1, 2, 2.5, 10, -3, 0, 100.125, 7}[g.Pick(8)], Off: offs[g.Pick(len(offs))]})
		}
	}
	// a far-future tick at the end flushes everything that is left
	x.Out.Sample = p
	cfg.Horizon = 12 * time.Hour
	if p.Mode == "lockstep" {
		// the model must know the second at which each point is processed: no clock movement while tasks are runnable
		cfg.TimeRaceP = 0
	}
	prop := "C10"

	s := x.Bubble(cfg, func(s *simrt.Sim) {
		out := make(chan []byte, 4)
		tick := make(chan time.Time)
		var agg *aggregator.Aggregator
		var berr error
		started := false
		cond := simrt.NewCond()
		var got []string  // every emitted line, in emission order
		var held [][]byte // the slices themselves, kept like a route or destination queue keeps them
		heldIntact := func() bool {
			for i, h := range held {
				if string(h) != got[i] {
					s.Fail(prop+":line-changed-after-emission", "emitted line #%d was %q when it was handed over and reads %q now: the aggregator reused its memory while the line was still queued downstream", i, got[i], string(h))
					return false
				}
			}
			return true
		}
		s.Spawn("relay-boot", "relay", "relay1", func() {
			initRelayGlobals()
			m, err := mkMatcher(FilterSpec{Regex: p.Regex})
			if err != nil {
				berr = err
			} else {
				agg, berr = aggregator.NewMocked(p.Fun, m, p.OutFmt, p.Cache, p.Interval, p.Wait, false, out, p.InBuf, time.Now, tick)
			}
			simrt.Yield("boot")
			started = true
			cond.Broadcast()
		})
		cond.Wait(func() bool { return started }, time.Time{})
		if berr != nil {
			s.Infra("%v", berr)
			return
		}
		s.Spawn("out-reader", "endpoint", "harness", func() {
			for l := range out {
				simrt.Yield("out")
				got = append(got, string(l))
				held = append(held, l)
			}
		})
		aspec := AggSpec{Fun: p.Fun, F: FilterSpec{Regex: p.Regex}, OutFmt: p.OutFmt, Interval: p.Interval, Wait: p.Wait}
		tooOldName := "module=aggregator.unit=Metric.what=TooOld"

		// ---- reference model state ----
		type bucketKey struct {
			q   uint
			key string
		}
		open := map[bucketKey][][2]float64{}
		closedQ := map[uint]bool{} // bucket starts already flushed
		emitted := map[string]bool{}
		var wantTooOld int64
		nowUnix := func() int64 { return time.Now().Unix() }

		modelPoint := func(name string, val float64, ts uint32, now int64) {
			key, ok := RefAggKey(aspec, []byte(name))
			if !ok {
				return
			}
			q := uint(ts) - uint(ts)%p.Interval
			bk := bucketKey{q, key}
			if pts, ok := open[bk]; ok {
				open[bk] = append(pts, [2]float64{val, float64(ts)})
				return
			}
			// a bucket is open while the wait period after its start has not elapsed
			if int64(q) > now-int64(p.Wait) {
				open[bk] = [][2]float64{{val, float64(ts)}}
				return
			}
			wantTooOld++
		}
		// modelFlush returns, per bucket start in ascending order, the set of lines due at cutoff
		modelFlush := func(cutoff int64) [][]string {
			var qs []uint
			seen := map[uint]bool{}
			for bk := range open {
				if int64(bk.q) <= cutoff && !seen[bk.q] {
					seen[bk.q] = true
					qs = append(qs, bk.q)
				}
			}
			sort.Slice(qs, func(i, j int) bool { return qs[i] < qs[j] })
			var res [][]string
			for _, q := range qs {
				var lines []string
				for bk, pts := range open {
					if bk.q != q {
						continue
					}
					vals, ok := refAggValue(p.Fun, pts)
					if ok {
						for sfx, v := range vals {
							name := bk.key
							if sfx != "" {
								name += "." + sfx
							}
							lines = append(lines, fmt.Sprintf("%s %f %d", name, v, q))
						}
					}
					delete(open, bk)
				}
				closedQ[q] = true
				sort.Strings(lines)
				res = append(res, lines)
			}
			return res
		}
		checkFlush := func(what string, newLines []string, want [][]string) bool {
			i := 0
			for _, set := range want {
				if i+len(set) > len(newLines) {
					s.Fail(prop+":missing-output", "%s: expected %d more line(s) %v, got only %v", what, len(set), set, newLines[i:])
					return false
				}
				gotSet := append([]string(nil), newLines[i:i+len(set)]...)
				sort.Strings(gotSet)
				for j := range set {
					if gotSet[j] != set[j] {
						s.Fail(prop+":wrong-output", "%s: for the next bucket the aggregator emitted %v, expected %v", what, gotSet, set)
						return false
					}
				}
				i += len(set)
			}
			if i != len(newLines) {
				s.Fail(prop+":extra-output", "%s: unexpected extra line(s) %v", what, newLines[i:])
				return false
			}
			for _, l := range newLines {
				f := strings.Fields(l)
				id := f[0] + "@" + f[2]
				if emitted[id] {
					s.Fail(prop+":emitted-twice", "%s: bucket %s was emitted a second time: %q", what, id, l)
					return false
				}
				emitted[id] = true
			}
			return true
		}

		if p.Mode == "lockstep" {
			for _, ev := range p.Events {
				switch ev.Kind {
				case "advance":
					simrt.Sleep(time.Duration(ev.Ms) * time.Millisecond)
				case "point":
					now := nowUnix()
					tsv := now + int64(ev.Off)
					if tsv < 1 {
						tsv = 1
					}
					ts := uint32(tsv)
					line := fmt.Sprintf("%s %s %d", ev.Name, strconv.FormatFloat(ev.Val, 'f', -1, 64), ts)
					agg.AddMaybe(bytes.Fields([]byte(line)), ev.Val, ts)
					simrt.Yield("addmaybe")
					simrt.Quiesce() // the aggregator has processed it at this very second
					modelPoint(ev.Name, ev.Val, ts, now)
					if len(got) != len(emitted) && false {
						return
					}
				case "tick":
					t := time.Now().Add(-time.Duration(ev.Lag) * time.Second)
					before := len(got)
					tick <- t
					simrt.Yield("tick")
					simrt.Quiesce()
					want := modelFlush(t.Add(-time.Duration(p.Wait) * time.Second).Unix())
					if !checkFlush(fmt.Sprintf("tick at %d (cutoff %d)", t.Unix(), t.Unix()-int64(p.Wait)), got[before:], want) {
						return
					}
				}
			}
			// final far-future tick: everything still open comes out exactly once
			before := len(got)
			t := time.Now().Add(400 * time.Hour)
			tick <- t
			simrt.Yield("tick")
			simrt.Quiesce()
			want := modelFlush(t.Unix())
			if !checkFlush("final tick", got[before:], want) {
				return
			}
			if c := counter(tooOldName); c != wantTooOld {
				s.Fail(prop+":too-old-counter", "TooOld counts %d, the model says %d points arrived for closed buckets", c, wantTooOld)
				return
			}
			x.Out.Nontrivial = len(got) >= 2
			if !heldIntact() {
				return
			}
			x.Out.StateSig = fmt.Sprintf("lockstep fun=%s emitted=%d tooOld=%d", p.Fun, len(got), wantTooOld)
			if wantTooOld > 0 {
				s.Probe("c10.too_old_points")
			}
			return
		}

		// ---- concurrent mode: points, ticks and the aggregator race; schedule-independent oracle ----
		// the i-th point of a (name,bucket) carries the value 2^i, so each emitted sum names its contributors
		perBucketCount := map[bucketKey]int{}
		contributed := map[bucketKey]uint64{} // bitmask of point indexes handed in
		total := 0
		fin := 0
		s.Spawn("ticker", "client", "harness", func() {
			for i := 0; i < 6+len(p.Events)/4; i++ {
				simrt.Sleep(time.Duration(300+g.Intn(int(p.Interval)*700+1)) * time.Millisecond)
				tick <- time.Now()
				simrt.Yield("tick")
			}
			fin++
			cond.Broadcast()
		})
		s.Spawn("points", "client", "harness", func() {
			for _, ev := range p.Events {
				if ev.Kind == "advance" {
					simrt.Sleep(time.Duration(ev.Ms) * time.Millisecond / 4)
					continue
				}
				if ev.Kind != "point" {
					continue
				}
				key, ok := RefAggKey(aspec, []byte(ev.Name))
				tsv := nowUnix() + int64(ev.Off)
				if tsv < 1 {
					tsv = 1
				}
				ts := uint32(tsv)
				val := 1.0
				if ok {
					bk := bucketKey{uint(ts) - uint(ts)%p.Interval, key}
					i := perBucketCount[bk]
					if i >= 50 {
						continue
					}
					perBucketCount[bk] = i + 1
					contributed[bk] |= 1 << uint(i)
					val = float64(uint64(1) << uint(i))
					total++
				}
				line := fmt.Sprintf("%s %s %d", ev.Name, strconv.FormatFloat(val, 'f', -1, 64), ts)
				agg.AddMaybe(bytes.Fields([]byte(line)), val, ts)
				simrt.Yield("addmaybe")
			}
			fin++
			cond.Broadcast()
		})
		cond.Wait(func() bool { return fin == 2 }, time.Time{})
		simrt.Quiesce()
		tick <- time.Now().Add(400 * time.Hour)
		simrt.Yield("tick")
		simrt.Quiesce()
		accounted := 0
		lastQ := map[int]uint{}
		_ = lastQ
		for _, l := range got {
			f := strings.Fields(l)
			if len(f) != 3 {
				s.Fail(prop+":wrong-output", "malformed aggregate line %q", l)
				return
			}
			q64, _ := strconv.ParseUint(f[2], 10, 64)
			v, _ := strconv.ParseFloat(f[1], 64)
			bk := bucketKey{uint(q64), f[0]}
			id := f[0] + "@" + f[2]
			if emitted[id] {
				s.Fail(prop+":emitted-twice", "bucket %s was emitted twice (second line %q)", id, l)
				return
			}
			emitted[id] = true
			mask, ok := contributed[bk]
			if !ok {
				s.Fail(prop+":wrong-output", "aggregate line %q belongs to no (name, bucket) that received points", l)
				return
			}
			if p.Fun == "sum" {
				set := uint64(v)
				if float64(set) != v || set&^mask != 0 {
					s.Fail(prop+":wrong-output", "bucket %s: emitted sum %v is not a sum of distinct points of this bucket (handed-in mask %b)", id, v, mask)
					return
				}
				accounted += popcount(set)
			} else {
				if v != math.Trunc(v) || int(v) > popcount(mask) || v < 1 {
					s.Fail(prop+":wrong-output", "bucket %s: emitted count %v but %d points were handed in", id, v, popcount(mask))
					return
				}
				accounted += int(v)
			}
		}
		if tooOld := counter(tooOldName); int64(accounted)+tooOld != int64(total) {
			s.Fail(prop+":conservation", "%d matching points were handed in; %d are contained in emitted aggregates and %d counted as too old", total, accounted, tooOld)
			return
		}
		x.Out.Nontrivial = len(got) >= 2
		if !heldIntact() {
			return
		}
		x.Out.StateSig = fmt.Sprintf("concurrent fun=%s emitted=%d points=%d", p.Fun, len(got), total)
	})
	finishRun(x, s, prop)
}

func popcount(x uint64) int {
	n := 0
	for ; x != 0; x &= x - 1 {
		n++
	}
	return n
}
