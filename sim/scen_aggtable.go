package crsim

// C11: aggregation output bypasses the pipeline, cannot loop; drop-raw is exact.
// Real table + real aggregators (AlignedTick on the simulated clock) + capture routes.

import (
	"fmt"
	"sort"
	"strings"
	"time"

	"crsim/simnet"
	"crsim/simrt"
)

func init() { Register("C11", scenC11) }

type c11Plan struct {
	Table TablePlan `json:"table"`
	Lines []string  `json:"lines_head"`
	N     int       `json:"lines"`
}

func scenC11(x *Exec) {
	g := x.Gen
	cfg := SwarmConfig(g)
	tp := TablePlan{Legacy: "medium", M20: "medium"}
	iv := []uint{1, 2, 5}[g.Pick(3)]
	wait := iv * uint(2+g.Intn(2)) // every point is in time by a safe margin: timing of late points is C10's subject
	// blacklist entries and rewriters that would hit aggregate names if those went through the pipeline
	if g.Bool(0.6) {
		tp.Blacklist = append(tp.Blacklist, FilterSpec{Prefix: []string{"agg", "agg2.", "agg3"}[g.Pick(3)]})
	}
	if g.Bool(0.3) {
		tp.Blacklist = append(tp.Blacklist, FilterSpec{Sub: "drop"})
	}
	if g.Bool(0.6) {
		tp.Rewriters = append(tp.Rewriters, RwSpec{Old: []string{"agg", "agg.", "/^agg/"}[g.Pick(3)], New: "REWRITTEN", Max: -1})
	}
	if g.Bool(0.3) {
		tp.Rewriters = append(tp.Rewriters, RwSpec{Old: "x", New: "y", Max: -1})
	}
	funs := []string{"sum", "count", "max"}
	type rule struct {
		re, fmt string
	}
	rules := []rule{
		{`^in\.(.*)`, "agg.$1"},           // plain
		{`^agg\.(.*)`, "agg2.$1"},         // chained by name on the first
		{`^(in|agg3)\.(.*)`, "agg3.$2"},   // its output matches its own filter
		{`^in\.a\.(.*)`, "agg.a.$1"},      // overlaps the first
		{`^in\.([a-z]+)\.`, "agg.sum.$1"}, // grouping
		{`^agg`, "agg4.all"},              // would swallow every aggregate
	}
	na := 1 + g.Intn(4)
	for i := 0; i < na; i++ {
		r := rules[g.Pick(len(rules))]
		a := AggSpec{Fun: funs[g.Pick(3)], F: FilterSpec{Regex: r.re}, OutFmt: r.fmt, Cache: g.Bool(0.5), Interval: iv, Wait: wait, DropRaw: g.Bool(0.4)}
		if g.Bool(0.3) {
			a.F.NotSub = []string{"b", "y"}[g.Pick(2)]
		}
		if g.Bool(0.3) {
			// with and without a literal prefix the matcher could short-cut on
			a.F.NotRegex = []string{`\.y$`, `^in\.b`, `drop`, `^(in|agg)\.a\.x`, `\.(x|c)$`}[g.Pick(5)]
		}
		tp.Aggs = append(tp.Aggs, a)
	}
	nr := 1 + g.Intn(4)
	for i := 0; i < nr; i++ {
		f := FilterSpec{}
		switch g.Pick(8) {
		case 0:
			f.Prefix = "agg"
		case 1:
			f.NotPrefix = "agg"
		case 2:
			f.Regex = `\.a\.`
		case 3:
			f.Sub = "in."
		case 4:
			f.Regex = `\.(x|all)$` // anchored at the end of the name: the value and timestamp of an aggregate line follow it
		case 5:
			f.Sub = "000" // occurs in the formatted value of every aggregate line ("3.000000"), in no name
		case 6:
			f.NotSub = "9466" // occurs in every timestamp of this scenario, in no name
		}
		tp.Routes = append(tp.Routes, RouteSpec{Type: "capture", Key: fmt.Sprintf("r%d", i), F: f})
	}
	p := c11Plan{Table: tp, N: 20 + g.Intn(100)}
	names := []string{"in.a.x", "in.a.y", "in.b.x", "in.b.y", "in.c", "other.z", "in.a.drop", "agg.fake"}
	type pt struct {
		name string
		val  int
		gap  int
		late bool // the timestamp is far behind: no bucket takes it any more, yet drop-raw withholds it all the same
	}
	var pts []pt
	for i := 0; i < p.N; i++ {
		pts = append(pts, pt{names[g.Pick(len(names))], 1 + g.Intn(9), []int{0, 0, 0, 50, 400, 1100}[g.Pick(6)], g.Bool(0.12)})
		if i < 10 {
			p.Lines = append(p.Lines, fmt.Sprintf("%s %d", pts[i].name, pts[i].val))
		}
	}
	x.Out.Sample = p
	cfg.Horizon = 2 * time.Hour
	prop := "C11"

	s := x.Bubble(cfg, func(s *simrt.Sim) {
		nw := simnet.NewNet(simnet.DefaultConfig())
		simnet.Use(nw)
		var bt *builtTable
		var berr error
		started := false
		cond := simrt.NewCond()
		s.Spawn("relay-boot", "relay", "relay1", func() {
			initRelayGlobals()
			bt, berr = buildTable(s, nw, &p.Table)
			simrt.Yield("boot")
			started = true
			cond.Broadcast()
		})
		cond.Wait(func() bool { return started }, time.Time{})
		if berr != nil {
			s.Infra("%v", berr)
			return
		}
		// model bookkeeping
		type bkey struct {
			ai  int
			key string
			q   uint
		}
		contrib := map[bkey][]float64{}
		wantRaw := map[int][]string{}
		wantAggIn := make([]int64, len(tp.Aggs))
		var nUnroutableRaw, nBlack int64
		for _, pnt := range pts {
			if pnt.gap > 0 {
				simrt.Sleep(time.Duration(pnt.gap) * time.Millisecond)
			}
			ts := uint32(time.Now().Unix())
			if pnt.late {
				ts -= uint32(wait + 2*iv + 5)
				s.Probe("c11.late_point")
			}
			line := fmt.Sprintf("%s %d %d", pnt.name, pnt.val, ts)
			v := RefDispatch(&p.Table, []byte(line), nil)
			bt.T.Dispatch([]byte(line))
			simrt.Yield("dispatched")
			if v.Blacklisted {
				nBlack++
				continue
			}
			for k, ai := range v.AggIn {
				wantAggIn[ai]++
				if pnt.late {
					continue // counted as input (and as too old), part of no aggregate
				}
				q := uint(ts) - uint(ts)%iv
				bk := bkey{ai, v.AggKeys[k], q}
				contrib[bk] = append(contrib[bk], float64(pnt.val))
			}
			if v.DroppedRaw {
				continue
			}
			if v.Unroutable {
				nUnroutableRaw++
			}
			for _, ri := range v.Routes {
				wantRaw[ri] = append(wantRaw[ri], string(v.Final))
			}
		}
		// let every bucket close and flush: the aligned ticker fires every interval, buckets close after wait
		simrt.Sleep(time.Duration(wait+3*iv+2) * time.Second)
		simrt.Quiesce()
		// expected aggregate lines: one per (rule, expanded name, bucket), routed by name only, untouched
		var nUnroutableAgg int64
		wantAgg := map[int][]string{}
		for bk, vals := range contrib {
			a := tp.Aggs[bk.ai]
			var v float64
			switch a.Fun {
			case "sum":
				for _, x := range vals {
					v += x
				}
			case "count":
				v = float64(len(vals))
			case "max":
				v = vals[0]
				for _, x := range vals {
					if x > v {
						v = x
					}
				}
			}
			line := fmt.Sprintf("%s %f %d", bk.key, v, bk.q)
			routed := false
			for ri, r := range tp.Routes {
				if RefMatch(r.F, []byte(bk.key)) {
					wantAgg[ri] = append(wantAgg[ri], line)
					routed = true
				}
			}
			if !routed {
				nUnroutableAgg++
			}
		}
		for ai, ag := range bt.Aggs {
			same := int64(0)
			for aj, other := range bt.Aggs {
				if other.Key == ag.Key {
					same += wantAggIn[aj]
				}
			}
			if got := counter("unit=Metric.direction=in.aggregator=" + ag.Key); got != same {
				s.Fail(prop+":agg-input", "aggregation #%d %+v took in %d metrics but %d raw metrics match it (aggregate output must never be aggregated again; drop-raw must withhold exactly the consumed metrics)", ai, tp.Aggs[ai], got, same)
				return
			}
		}
		for ri, c := range bt.Caps {
			var got []string
			for _, call := range c.Calls {
				got = append(got, string(call.copy))
			}
			want := append(append([]string(nil), wantRaw[ri]...), wantAgg[ri]...)
			sort.Strings(got)
			sort.Strings(want)
			gi, wi := 0, 0
			for gi < len(got) || wi < len(want) {
				switch {
				case gi < len(got) && wi < len(want) && got[gi] == want[wi]:
					gi++
					wi++
				case wi == len(want) || (gi < len(got) && got[gi] < want[wi]):
					kind := "raw"
					if strings.HasPrefix(got[gi], "agg") || strings.Contains(got[gi], "REWRITTEN") {
						kind = "aggregate"
					}
					s.Fail(prop+":unexpected-"+kind, "route %s %+v received %q which the model does not send there (%d lines, expected %d)", c.key, tp.Routes[ri].F, got[gi], len(got), len(want))
					return
				default:
					kind := "raw"
					if strings.HasPrefix(want[wi], "agg") {
						kind = "aggregate"
					}
					s.Fail(prop+":missing-"+kind, "route %s %+v did not receive %q (%d lines, expected %d)", c.key, tp.Routes[ri].F, want[wi], len(got), len(want))
					return
				}
			}
		}
		if c := counter("unit=Metric.direction=unroutable"); c != nUnroutableRaw+nUnroutableAgg {
			s.Fail(prop+":unroutable-counter", "unroutable counts %d, expected %d raw + %d aggregate", c, nUnroutableRaw, nUnroutableAgg)
			return
		}
		if c := counter("unit=Metric.direction=blacklist"); c != nBlack {
			s.Fail(prop+":blacklist-counter", "blacklist counts %d, expected %d (aggregates are never blacklisted)", c, nBlack)
			return
		}
		if c := counter("unit=Err.type=invalid"); c != 0 {
			s.Fail(prop+":validated", "%d lines were counted invalid although every raw line is valid (aggregates are never validated)", c)
			return
		}
		x.Out.Nontrivial = len(contrib) > 0
		x.Out.StateSig = fmt.Sprintf("aggs=%d buckets=%d routes=%d lines=%d", len(tp.Aggs), len(contrib), len(tp.Routes), len(pts))
	})
	finishRun(x, s, prop)
}
