package crsim

// Scenario S12: configuration means what the documentation says, in both syntaxes (C20).

import (
	"fmt"
	"sort"
	"strings"
	"time"

	"crsim/simhttp"
	"crsim/simnet"
	"crsim/simos"
	"crsim/simrt"

	"github.com/grafana/carbon-relay-ng/crngmain"
	"github.com/grafana/carbon-relay-ng/route"
	"github.com/grafana/carbon-relay-ng/table"
)

func init() { Register("C20", scenC20) }

type c20Dest struct {
	Addr string            `json:"addr"`
	F    FilterSpec        `json:"filter"`
	Opts map[string]string `json:"opts"` // only the options written by the user
}

type c20Route struct {
	Type  string            `json:"type"`
	Key   string            `json:"key"`
	F     FilterSpec        `json:"filter"`
	Sub2  bool              `json:"use_substr_spelling"`
	Dests []c20Dest         `json:"dests"`
	GN    map[string]string `json:"grafananet_opts,omitempty"`
}

type c20Agg struct {
	Fun      string     `json:"function"`
	F        FilterSpec `json:"filter"`
	Format   string     `json:"format"`
	Interval int        `json:"interval"`
	Wait     int        `json:"wait"`
	Cache    bool       `json:"cache"`
	DropRaw  bool       `json:"dropRaw"`
	Sub2     bool       `json:"use_substr_spelling"`
}

type c20Plan struct {
	Black  [][2]string `json:"blacklist"`
	Rw     []RwSpec    `json:"rewriters"`
	Aggs   []c20Agg    `json:"aggregations"`
	Routes []c20Route  `json:"routes"`
	Interp []string    `json:"interpolation_probes"`
}

// documented defaults (docs/config.md, "carbon destination" and "grafanaNet route" tables)
var c20DestDefaults = map[string]int64{"flush": 1000, "reconn": 10000, "connbuf": 30000, "iobuf": 2000000, "spoolbuf": 10000,
	"spoolmaxbytesperfile": 200 * 1024 * 1024, "spoolsyncevery": 10000, "spoolsyncperiod": 1000, "spoolsleep": 500, "unspoolsleep": 10}
var c20GNDefaults = map[string]string{"sslverify": "true", "spool": "false", "blocking": "false", "concurrency": "100", "bufSize": "10000000",
	"flushMaxNum": "5000", "flushMaxWait": "500", "timeout": "10000", "orgId": "1", "errBackoffMin": "100", "errBackoffFactor": "1.5"}

var c20Frags = []string{"collectd", "stats", "servers", "web1", "cpu", "x9", "prod", "timers", "dc-2", "A_b"}

func c20Filter(g *simrt.Choices, p float64) FilterSpec {
	var f FilterSpec
	fr := func() string { return c20Frags[g.Pick(len(c20Frags))] }
	if g.Bool(p) {
		f.Prefix = fr() + "."
	}
	if g.Bool(p) {
		f.NotPrefix = fr()
	}
	if g.Bool(p) {
		f.Sub = fr()
	}
	if g.Bool(p) {
		f.NotSub = "." + fr()
	}
	if g.Bool(p) {
		f.Regex = []string{`^stats\.(.*)`, `\.cpu$`, `^servers\.([a-z0-9]+)\.(.*)`, `web[0-9]+`}[g.Pick(4)]
	}
	if g.Bool(p) {
		f.NotRegex = []string{`^collectd`, `\.x9$`, `prod`}[g.Pick(3)]
	}
	return f
}

func filterOptString(f FilterSpec, subKey string) string {
	var o []string
	add := func(k, v string) {
		if v != "" {
			o = append(o, k+"="+v)
		}
	}
	add("prefix", f.Prefix)
	add("notPrefix", f.NotPrefix)
	add(subKey, f.Sub)
	add("notSub", f.NotSub)
	add("regex", f.Regex)
	add("notRegex", f.NotRegex)
	return strings.Join(o, " ")
}

func filterTOML(b *strings.Builder, f FilterSpec, subKey string) {
	w := func(k, v string) {
		if v != "" {
			fmt.Fprintf(b, "%s = '%s'\n", k, v)
		}
	}
	w("prefix", f.Prefix)
	w("notPrefix", f.NotPrefix)
	w(subKey, f.Sub)
	w("notSub", f.NotSub)
	w("regex", f.Regex)
	w("notRegex", f.NotRegex)
}

func destString(d c20Dest) string {
	s := d.Addr
	if o := filterOptString(d.F, "sub"); o != "" {
		s += " " + o
	}
	keys := make([]string, 0, len(d.Opts))
	for k := range d.Opts {
		keys = append(keys, k)
	}
	sort.Strings(keys)
	for _, k := range keys {
		s += " " + k + "=" + d.Opts[k]
	}
	return s
}

// dumpTable renders everything the two syntaxes must agree on (and the model can predict).
func dumpTable(tbl *table.Table, plan *c20Plan) (string, error) {
	var b strings.Builder
	snap := tbl.Snapshot()
	simrt.Yield("snapshot")
	for i, m := range snap.Blacklist {
		fmt.Fprintf(&b, "blacklist %d: prefix=%q notPrefix=%q sub=%q notSub=%q regex=%q notRegex=%q\n", i, m.Prefix, m.NotPrefix, m.Sub, m.NotSub, m.Regex, m.NotRegex)
	}
	for i, r := range snap.Rewriters {
		fmt.Fprintf(&b, "rewriter %d: old=%q new=%q not=%q max=%d\n", i, r.Old, r.New, r.Not, r.Max)
	}
	for i, a := range snap.Aggregators {
		m := a.Matcher
		fmt.Fprintf(&b, "aggregation %d: fun=%s prefix=%q notPrefix=%q sub=%q notSub=%q regex=%q notRegex=%q format=%q interval=%d wait=%d cache=%v dropRaw=%v\n",
			i, a.Fun, m.Prefix, m.NotPrefix, m.Sub, m.NotSub, m.Regex, m.NotRegex, a.OutFmt, a.Interval, a.Wait, a.Cache, a.DropRaw)
	}
	for i, r := range snap.Routes {
		m := r.Matcher
		fmt.Fprintf(&b, "route %d: type=%s key=%s prefix=%q notPrefix=%q sub=%q notSub=%q regex=%q notRegex=%q\n", i, r.Type, r.Key, m.Prefix, m.NotPrefix, m.Sub, m.NotSub, m.Regex, m.NotRegex)
		rt := tbl.GetRoute(r.Key)
		if gn, ok := rt.(*route.GrafanaNet); ok {
			c := gn.Cfg
			fmt.Fprintf(&b, "  grafanaNet addr=%s apiKey=%s sslverify=%v spool=%v blocking=%v concurrency=%d bufSize=%d flushMaxNum=%d flushMaxWait=%d timeout=%d orgId=%d errBackoffMin=%d errBackoffFactor=%v\n",
				c.Addr, c.ApiKey, c.SSLVerify, c.Spool, c.Blocking, c.Concurrency, c.BufSize, c.FlushMaxNum, c.FlushMaxWait/time.Millisecond, c.Timeout/time.Millisecond, c.OrgID, c.ErrBackoffMin/time.Millisecond, c.ErrBackoffFactor)
			continue
		}
		for di := range r.Dests {
			d, err := rt.GetDestination(di)
			simrt.Yield("getdest")
			if err != nil {
				return "", err
			}
			dm := d.GetMatcher()
			simrt.Yield("getmatcher")
			fmt.Fprintf(&b, "  dest %d: addr=%s instance=%q prefix=%q notPrefix=%q sub=%q notSub=%q regex=%q notRegex=%q spool=%v pickle=%v", di, d.Addr, d.Instance, dm.Prefix, dm.NotPrefix, dm.Sub, dm.NotSub, dm.Regex, dm.NotRegex, d.Spool, d.Pickle)
			tun := d.VerifTuning()
			keys := make([]string, 0, len(tun))
			for k := range tun {
				keys = append(keys, k)
			}
			sort.Strings(keys)
			for _, k := range keys {
				fmt.Fprintf(&b, " %s=%d", k, tun[k])
			}
			b.WriteString("\n")
		}
	}
	return b.String(), nil
}

// modelDump is the same rendering computed from the abstract configuration and the documented defaults.
func modelDump(p *c20Plan, sf, af string) string {
	var b strings.Builder
	for i, e := range p.Black {
		f := map[string]string{}
		f[e[0]] = e[1]
		fmt.Fprintf(&b, "blacklist %d: prefix=%q notPrefix=%q sub=%q notSub=%q regex=%q notRegex=%q\n", i, f["prefix"], f["notPrefix"], f["sub"], f["notSub"], f["regex"], f["notRegex"])
	}
	for i, r := range p.Rw {
		fmt.Fprintf(&b, "rewriter %d: old=%q new=%q not=%q max=%d\n", i, r.Old, r.New, r.Not, r.Max)
	}
	for i, a := range p.Aggs {
		m := a.F
		fmt.Fprintf(&b, "aggregation %d: fun=%s prefix=%q notPrefix=%q sub=%q notSub=%q regex=%q notRegex=%q format=%q interval=%d wait=%d cache=%v dropRaw=%v\n",
			i, a.Fun, m.Prefix, m.NotPrefix, m.Sub, m.NotSub, m.Regex, m.NotRegex, a.Format, a.Interval, a.Wait, a.Cache, a.DropRaw)
	}
	for i, r := range p.Routes {
		m := r.F
		typ := r.Type
		if typ == "grafanaNet" {
			typ = "GrafanaNet"
		}
		fmt.Fprintf(&b, "route %d: type=%s key=%s prefix=%q notPrefix=%q sub=%q notSub=%q regex=%q notRegex=%q\n", i, typ, r.Key, m.Prefix, m.NotPrefix, m.Sub, m.NotSub, m.Regex, m.NotRegex)
		if r.Type == "grafanaNet" {
			v := func(k string) string {
				if x, ok := r.GN[k]; ok {
					return x
				}
				return c20GNDefaults[k]
			}
			fmt.Fprintf(&b, "  grafanaNet addr=%s apiKey=%s sslverify=%s spool=%s blocking=%s concurrency=%s bufSize=%s flushMaxNum=%s flushMaxWait=%s timeout=%s orgId=%s errBackoffMin=%s errBackoffFactor=%s\n",
				"http://grafana.sim/metrics", "key-"+r.Key, v("sslverify"), v("spool"), v("blocking"), v("concurrency"), v("bufSize"), v("flushMaxNum"), v("flushMaxWait"), v("timeout"), v("orgId"), v("errBackoffMin"), v("errBackoffFactor"))
			continue
		}
		for di, d := range r.Dests {
			parts := strings.Split(d.Addr, ":")
			addr, inst := d.Addr, ""
			if len(parts) == 3 {
				addr, inst = parts[0]+":"+parts[1], parts[2]
			}
			f := d.F
			if r.Type == "consistentHashing" {
				f = FilterSpec{}
			}
			b2 := func(k string) bool { return d.Opts[k] == "true" }
			fmt.Fprintf(&b, "  dest %d: addr=%s instance=%q prefix=%q notPrefix=%q sub=%q notSub=%q regex=%q notRegex=%q spool=%v pickle=%v", di, addr, inst, f.Prefix, f.NotPrefix, f.Sub, f.NotSub, f.Regex, f.NotRegex, b2("spool"), b2("pickle"))
			keys := make([]string, 0)
			for k := range c20DestDefaults {
				keys = append(keys, k)
			}
			sort.Strings(keys)
			for _, k := range keys {
				val := fmt.Sprint(c20DestDefaults[k])
				if x, ok := d.Opts[k]; ok {
					val = x
				}
				fmt.Fprintf(&b, " %s=%s", k, val)
			}
			b.WriteString("\n")
		}
	}
	return b.String()
}

func scenC20(x *Exec) {
	g := x.Gen
	cfg0 := SwarmConfig(g)
	sf, af, err := gnConfFiles("[default]\npattern = .*\nretentions = 10s:1d\n")
	if err != nil {
		x.Out.Infra = err.Error()
		return
	}
	p := c20Plan{}
	kinds := []string{"prefix", "notPrefix", "sub", "notSub", "regex", "notRegex"}
	for i, n := 0, g.Intn(4); i < n; i++ {
		p.Black = append(p.Black, [2]string{kinds[g.Pick(6)], []string{"collectd.localhost", `^foo\..*\.cpu+`, "x9", "stats."}[g.Pick(4)]})
	}
	for i, n := 0, g.Intn(3); i < n; i++ {
		p.Rw = append(p.Rw, RwSpec{Old: []string{"testold", "/web([0-9]+)/", "x9"}[g.Pick(3)], New: []string{"testnew", "w${1}", "w$1x", "Z"}[g.Pick(4)], Max: -1})
		if !isSlashed(p.Rw[i].Old) {
			p.Rw[i].Max = []int{-1, 1, 3}[g.Pick(3)]
		}
	}
	for i, n := 0, g.Intn(3); i < n; i++ {
		a := c20Agg{Fun: []string{"sum", "avg", "count", "max", "min", "last", "delta", "derive", "stdev"}[g.Pick(9)], F: c20Filter(g, 0.3),
			Format: []string{"agg.$1", "agg.${1}.x", "aggall"}[g.Pick(3)], Interval: []int{10, 5, 60}[g.Pick(3)], Wait: []int{20, 0, 7}[g.Pick(3)], Cache: g.Bool(0.5), DropRaw: g.Bool(0.4), Sub2: g.Bool(0.3)}
		a.F.Regex = []string{`^stats\.timers\.(app|proxy)[0-9]+\.requests\.(.*)`, `^servers\.(.*)`}[g.Pick(2)]
		p.Aggs = append(p.Aggs, a)
	}
	destKeys := []string{"flush", "reconn", "connbuf", "iobuf", "spoolbuf", "spoolmaxbytesperfile", "spoolsyncevery", "spoolsyncperiod", "spoolsleep", "unspoolsleep"}
	nr := 1 + g.Intn(3)
	for i := 0; i < nr; i++ {
		r := c20Route{Key: fmt.Sprintf("route%d", i), F: c20Filter(g, 0.25), Sub2: g.Bool(0.3)}
		r.Type = []string{"sendAllMatch", "sendFirstMatch", "consistentHashing", "grafanaNet"}[g.Pick(4)]
		if r.Type == "grafanaNet" {
			r.GN = map[string]string{}
			// every option gets a value no other option has, or is left out
			vals := map[string]string{"sslverify": "false", "spool": "true", "blocking": "true", "concurrency": fmt.Sprint(3 + i), "bufSize": fmt.Sprint(2000 + i), "flushMaxNum": fmt.Sprint(41 + i),
				"flushMaxWait": fmt.Sprint(70 + i), "timeout": fmt.Sprint(900 + i), "orgId": fmt.Sprint(11 + i), "errBackoffMin": fmt.Sprint(130 + i), "errBackoffFactor": "2.5"}
			for k, v := range vals {
				_ = k
				_ = v
			}
			for _, k := range []string{"sslverify", "spool", "blocking", "concurrency", "bufSize", "flushMaxNum", "flushMaxWait", "timeout", "orgId", "errBackoffMin", "errBackoffFactor"} {
				if g.Bool(0.5) {
					r.GN[k] = vals[k]
				}
			}
		} else {
			nd := 1 + g.Intn(3)
			if r.Type == "consistentHashing" && nd < 2 {
				nd = 2
			}
			for d := 0; d < nd; d++ {
				dd := c20Dest{Addr: fmt.Sprintf("10.6.%d.%d:2003", i, d+1), Opts: map[string]string{}}
				if r.Type == "consistentHashing" && g.Bool(0.5) {
					dd.Addr += fmt.Sprintf(":inst%d", d)
				}
				if r.Type != "consistentHashing" {
					dd.F = c20Filter(g, 0.2)
				}
				for ki, k := range destKeys {
					if g.Bool(0.45) {
						dd.Opts[k] = fmt.Sprint(100*(ki+1) + 10*d + i + 1) // pairwise distinguishable
					}
				}
				if g.Bool(0.5) {
					dd.Opts["spool"] = []string{"true", "false"}[g.Pick(2)]
				}
				if g.Bool(0.5) {
					dd.Opts["pickle"] = []string{"true", "false"}[g.Pick(2)]
				}
				r.Dests = append(r.Dests, dd)
			}
		}
		p.Routes = append(p.Routes, r)
	}
	p.Interp = []string{"agg.$1", "agg.${1}x", "cost$$", "$x.y", "${notavar}", "pre${HOST}post", "$HOST", "${GRAFANA_NET_ADDR}", "$GRAFANA_NET_API_KEY", "${GRAFANA_NET_USER_ID}", "$1${2}", "$", "a$", "${", "$host",
		"$HOSTNAME", "${HOSTNAME}", "$HOST_ID", "$GRAFANA_NET_ADDR_BACKUP", "{$HOST}", "$HOST.example", "$HOST-1", "x$HOST$HOST", "${HOST", "$HOST}", "$GRAFANA_NET_USER_IDX ${GRAFANA_NET_USER_ID}0"}
	x.Out.Sample = p
	cfg0.Horizon = time.Hour
	prop := "C20"

	// ---- the two texts ----
	subKey := func(alt bool) string {
		if alt {
			return "substr"
		}
		return "sub"
	}
	head := "instance = \"sim\"\nspool_dir = \"/spool\"\nbad_metrics_max_age = \"24h\"\n"
	var tm strings.Builder
	tm.WriteString(head)
	var cmds []string
	if len(p.Black) > 0 {
		var es []string
		for _, e := range p.Black {
			es = append(es, "'"+e[0]+" "+e[1]+"'")
			cmds = append(cmds, "addBlack "+e[0]+" "+e[1])
		}
		fmt.Fprintf(&tm, "blacklist = [ %s ]\n", strings.Join(es, ", "))
	}
	var sections strings.Builder
	for _, a := range p.Aggs {
		fmt.Fprintf(&sections, "[[aggregation]]\nfunction = '%s'\n", a.Fun)
		filterTOML(&sections, a.F, subKey(a.Sub2))
		fmt.Fprintf(&sections, "format = '%s'\ninterval = %d\nwait = %d\ncache = %v\ndropRaw = %v\n", a.Format, a.Interval, a.Wait, a.Cache, a.DropRaw)
		cmds = append(cmds, fmt.Sprintf("addAgg %s %s %s %d %d cache=%v dropRaw=%v", a.Fun, filterOptString(a.F, "sub"), a.Format, a.Interval, a.Wait, a.Cache, a.DropRaw))
	}
	for _, r := range p.Rw {
		fmt.Fprintf(&sections, "[[rewriter]]\nold = '%s'\nnew = '%s'\nnot = ''\nmax = %d\n", r.Old, r.New, r.Max)
		cmds = append(cmds, fmt.Sprintf("addRewriter %s %s %d", r.Old, r.New, r.Max))
	}
	for _, r := range p.Routes {
		fmt.Fprintf(&sections, "[[route]]\nkey = '%s'\ntype = '%s'\n", r.Key, r.Type)
		filterTOML(&sections, r.F, subKey(r.Sub2))
		if r.Type == "grafanaNet" {
			fmt.Fprintf(&sections, "addr = 'http://grafana.sim/metrics'\napikey = 'key-%s'\nschemasFile = '%s'\naggregationFile = '%s'\n", r.Key, sf, af)
			var o []string
			keys := make([]string, 0, len(r.GN))
			for k := range r.GN {
				keys = append(keys, k)
			}
			sort.Strings(keys)
			for _, k := range keys {
				fmt.Fprintf(&sections, "%s = %s\n", k, r.GN[k])
				o = append(o, k+"="+r.GN[k])
			}
			c := fmt.Sprintf("addRoute grafanaNet %s %s  http://grafana.sim/metrics key-%s %s %s %s", r.Key, filterOptString(r.F, "sub"), r.Key, sf, af, strings.Join(o, " "))
			cmds = append(cmds, strings.Replace(c, "   ", "  ", -1))
			continue
		}
		var ds, dq []string
		for _, d := range r.Dests {
			ds = append(ds, destString(d))
			// in the TOML form the options of a destination are often aligned in columns; any run of blanks separates them
			td := destString(d)
			switch hashStr(td) % 3 {
			case 0:
				td = strings.Replace(td, " ", "   ", -1)
			case 1:
				td = strings.Replace(td, " ", "  ", 1)
			}
			dq = append(dq, "'"+td+"'")
		}
		fmt.Fprintf(&sections, "destinations = [ %s ]\n", strings.Join(dq, ", "))
		c := fmt.Sprintf("addRoute %s %s %s  %s", r.Type, r.Key, filterOptString(r.F, "sub"), strings.Join(ds, "  "))
		cmds = append(cmds, strings.Replace(c, "   ", "  ", -1))
	}
	tomlA := tm.String() + sections.String()
	var qc []string
	for _, c := range cmds {
		qc = append(qc, "  '"+c+"',")
	}
	tomlB := head + "[init]\ncmds = [\n" + strings.Join(qc, "\n") + "\n]\n"

	s := x.Bubble(cfg0, func(s *simrt.Sim) {
		nw := simnet.NewNet(simnet.DefaultConfig())
		simnet.Use(nw)
		simhttp.Use(&gnServer{s: s, cond: simrt.NewCond()})
		fs := simos.Cur()
		fs.Host = "relayhost.example.org"
		fs.Env["GRAFANA_NET_ADDR"] = "https://gnet.example/metrics"
		fs.Env["GRAFANA_NET_API_KEY"] = "sekret"
		fs.Env["GRAFANA_NET_USER_ID"] = "4711"
		var dumpA, dumpB string
		var errA, errB error
		var interp []string
		started := false
		cond := simrt.NewCond()
		s.Spawn("relay-boot", "relay", "relay1", func() {
			initRelayGlobals()
			var ta, tb *table.Table
			ta, _, errA = bootFromTOML(tomlA)
			if errA == nil {
				dumpA, errA = dumpTable(ta, &p)
			}
			tb, _, errB = bootFromTOML(tomlB)
			if errB == nil {
				dumpB, errB = dumpTable(tb, &p)
			}
			// interpolation: what the config-file reader makes of '$' sequences
			for _, probe := range p.Interp {
				fs.WriteFile("/etc/probe.ini", []byte("format = '"+probe+"'\n"))
				interp = append(interp, crngmain.VerifReadConfigFile("/etc/probe.ini"))
			}
			simrt.Yield("boot")
			started = true
			cond.Broadcast()
		})
		cond.Wait(func() bool { return started }, time.Time{})
		if errA != nil {
			s.Fail(prop+":toml-rejected", "the structured configuration was rejected: %v\n%s", errA, tomlA)
			return
		}
		if errB != nil {
			s.Fail(prop+":commands-rejected", "the equivalent init commands were rejected: %v\n%s", errB, tomlB)
			return
		}
		want := modelDump(&p, sf, af)
		firstDiff := func(a, b string) string {
			la, lb := strings.Split(a, "\n"), strings.Split(b, "\n")
			for i := 0; i < len(la) || i < len(lb); i++ {
				var x, y string
				if i < len(la) {
					x = la[i]
				}
				if i < len(lb) {
					y = lb[i]
				}
				if x != y {
					return fmt.Sprintf("\n   got: %s\n  want: %s", x, y)
				}
			}
			return ""
		}
		if d := firstDiff(dumpA, want); d != "" {
			s.Fail(prop+":toml-differs-from-docs", "the table built from the TOML sections is not what the documentation says:%s", d)
			return
		}
		if d := firstDiff(dumpB, want); d != "" {
			s.Fail(prop+":commands-differ-from-docs", "the table built from the init commands is not what the documentation says:%s", d)
			return
		}
		// interpolation
		for i, probe := range p.Interp {
			wantS := refInterpolate(probe, map[string]string{"HOST": "relayhost", "GRAFANA_NET_ADDR": "https://gnet.example/metrics",
				"GRAFANA_NET_API_KEY": "sekret", "GRAFANA_NET_USER_ID": "4711"})
			wantLine := "format = '" + wantS + "'\n"
			if interp[i] != wantLine {
				s.Fail(prop+":interpolation", "config text %q was read as %q, expected %q (only the documented variables are substituted)", "format = '"+probe+"'", strings.TrimSpace(interp[i]), strings.TrimSpace(wantLine))
				return
			}
		}
		x.Out.Nontrivial = len(p.Routes) > 0
		x.Out.StateSig = fmt.Sprintf("routes=%d aggs=%d rw=%d black=%d", len(p.Routes), len(p.Aggs), len(p.Rw), len(p.Black))
	})
	finishRun(x, s, prop)
}

// refInterpolate is the documented meaning of config-file interpolation: $NAME (NAME being the longest run of letters, digits
// and underscores) and ${NAME} are replaced when NAME is one of the documented variables; every other '$' sequence is text.
func refInterpolate(in string, vars map[string]string) string {
	var b strings.Builder
	isName := func(c byte) bool {
		return c == '_' || (c >= '0' && c <= '9') || (c >= 'a' && c <= 'z') || (c >= 'A' && c <= 'Z')
	}
	for i := 0; i < len(in); {
		if in[i] != '$' || i+1 >= len(in) {
			b.WriteByte(in[i])
			i++
			continue
		}
		if in[i+1] == '{' {
			if j := strings.IndexByte(in[i+2:], '}'); j >= 0 {
				name := in[i+2 : i+2+j]
				if v, ok := vars[name]; ok {
					b.WriteString(v)
				} else {
					b.WriteString(in[i : i+2+j+1])
				}
				i += 2 + j + 1
				continue
			}
			b.WriteByte('$')
			i++
			continue
		}
		j := i + 1
		for j < len(in) && isName(in[j]) {
			j++
		}
		if v, ok := vars[in[i+1:j]]; ok {
			b.WriteString(v)
		} else {
			b.WriteString(in[i:j])
		}
		if j == i+1 {
			j = i + 1
		}
		i = j
	}
	return b.String()
}
