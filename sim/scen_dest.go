package crsim

// Scenario S2: one or more real carbon destinations against scripted endpoints.
// C05 healthy stream, C06 adversarial endpoint (boundedness + steady-state accounting),
// C07 outages with spooling.

import (
	"bytes"
	"fmt"
	"math"
	"os"
	"runtime"
	"strconv"
	"strings"
	"time"

	"crsim/simnet"
	"crsim/simos"
	"crsim/simrt"

	metrics "github.com/Dieterbe/go-metrics"
	"github.com/grafana/carbon-relay-ng/aggregator"
	"github.com/grafana/carbon-relay-ng/destination"
	"github.com/grafana/carbon-relay-ng/matcher"
	"github.com/grafana/carbon-relay-ng/route"
	"github.com/grafana/carbon-relay-ng/stats"
	"github.com/grafana/carbon-relay-ng/validate"
)

func init() {
	resetHooks = append(resetHooks, func() {
		metrics.DefaultRegistry.UnregisterAll()
		simos.Use(simos.NewFS())
		simnet.Use(simnet.NewNet(simnet.DefaultConfig()))
		destination.VerifSetKeepSafeCap(32)
		validate.VerifReset()
	})
	Register("C05", scenC05)
	Register("C06", scenC06)
	Register("C07", scenC07)
}

// initRelayGlobals must run inside the bubble, as a relay task.
func initRelayGlobals() {
	aggregator.VerifReset()
}

func counter(name string) int64 { return stats.Counter(name).Count() }

type destCfg struct {
	Addr           string `json:"addr"`
	Pickle         bool   `json:"pickle"`
	Spool          bool   `json:"spool"`
	FlushMs        int    `json:"flush_ms"`
	ReconnMs       int    `json:"reconn_ms"`
	ConnBuf        int    `json:"connbuf"`
	IOBuf          int    `json:"iobuf"`
	SpoolBuf       int    `json:"spoolbuf"`
	SpoolMaxBytes  int64  `json:"spoolmaxbytesperfile"`
	SyncEvery      int64  `json:"spoolsyncevery"`
	SyncPeriodMs   int    `json:"spoolsyncperiod_ms"`
	SpoolSleepUs   int    `json:"spoolsleep_us"`
	UnspoolSleepUs int    `json:"unspoolsleep_us"`
}

func defaultDestCfg(addr string) destCfg {
	return destCfg{Addr: addr, FlushMs: 1000, ReconnMs: 10000, ConnBuf: 30000, IOBuf: 65536, SpoolBuf: 10000,
		SpoolMaxBytes: 200 << 20, SyncEvery: 10000, SyncPeriodMs: 1000, SpoolSleepUs: 500, UnspoolSleepUs: 10}
}

func (c destCfg) build(routeName string, m matcher.Matcher) (*destination.Destination, error) {
	return destination.New(routeName, m, c.Addr, "/spool", c.Spool, c.Pickle,
		time.Duration(c.FlushMs)*time.Millisecond, time.Duration(c.ReconnMs)*time.Millisecond,
		c.ConnBuf, c.IOBuf, c.SpoolBuf, c.SpoolMaxBytes, c.SyncEvery, time.Duration(c.SyncPeriodMs)*time.Millisecond,
		time.Duration(c.SpoolSleepUs)*time.Microsecond, time.Duration(c.UnspoolSleepUs)*time.Microsecond)
}

func (c destCfg) key(routeName string) string {
	return routeName + "_" + strings.Replace(strings.Replace(c.Addr, ".", "_", -1), ":", "_", -1)
}

var valueSpellings = []string{"1", "0", "-1", "3.25", "1e3", "1.5E-3", "+5", "-0", "0x1p-2", ".5", "12345678.125", "1e-9"}

// mkLine builds a unique valid line of (about) the wanted total length.
func mkLine(prefix string, i, total int, g *simrt.Choices) []byte {
	val := valueSpellings[g.Pick(len(valueSpellings))]
	ts := strconv.Itoa(1500000000 + i)
	name := fmt.Sprintf("%s.l%d", prefix, i)
	need := total - len(name) - len(val) - len(ts) - 2
	if need > 1 {
		name += "." + strings.Repeat(string(rune('a'+i%26)), need-1)
	}
	return []byte(name + " " + val + " " + ts)
}

func netConfig(g *simrt.Choices) simnet.Config {
	c := simnet.DefaultConfig()
	c.SockBuf = []int{65536, 1, 16, 100, 4096, 1 << 20}[g.Pick(6)]
	c.ChunkP = []float64{0.3, 0, 0.9}[g.Pick(3)]
	c.MaxReadChunk = []int{0, 1, 7, 1000}[g.Pick(4)]
	c.MaxGrace = []int{2, 0, 5}[g.Pick(3)]
	return c
}

// ---------------------------------------------------------------- C05

type c05Dest struct {
	Dest    destCfg `json:"dest"`
	ReadUs  int     `json:"endpoint_read_delay_us"`
	ReadBuf int     `json:"endpoint_read_buf"`
	Lines   int     `json:"lines"`
	Lens    []int   `json:"line_lengths_head"`
	Pauses  []int   `json:"pause_ms_head"`
	lines   [][]byte
	pauses  []int
	total   int
}

type c05Plan struct {
	Net     simnet.Config `json:"net"`
	Dests   []*c05Dest    `json:"destinations"`
	Flushes []int         `json:"manual_flush_gaps_ms"` // Destination.Flush() calls made while the clients hand lines over
}

func genC05Dest(x *Exec, g *simrt.Choices, k int, pickle bool, nc simnet.Config) *c05Dest {
	p := &c05Dest{}
	d := defaultDestCfg(fmt.Sprintf("10.1.1.%d:2003", k+1))
	d.Pickle = pickle
	d.FlushMs = []int{100, 1, 10, 1000, 5000}[g.Pick(5)]
	d.ConnBuf = []int{100, 0, 1, 2, 10, 5000}[g.Pick(6)]
	d.IOBuf = []int{64, 1, 2, 7, 100, 1024, 4096, 65536}[g.Pick(8)]
	p.Dest = d
	p.ReadUs = []int{0, 0, 50, 1000, 20000}[g.Pick(5)]
	p.ReadBuf = []int{4096, 1, 13, 512, 65536}[g.Pick(5)]
	p.Lines = 20 + g.Intn(180)
	if x.Case.Tier == "thorough" && g.Bool(0.2) {
		p.Lines = 200 + g.Intn(1800)
	}
	// the slowest link decides how many bytes a run can afford to move
	eff := p.ReadBuf
	if nc.MaxReadChunk > 0 && nc.MaxReadChunk < eff {
		eff = nc.MaxReadChunk
	}
	if nc.SockBuf < eff {
		eff = nc.SockBuf
	}
	budget := 400000
	if eff*20000 < budget {
		budget = eff * 20000
	}
	for i := 0; i < p.Lines; i++ {
		var n int
		switch g.Pick(6) {
		case 0:
			n = 5 + g.Intn(10)
		case 1:
			n = d.IOBuf - 2 + g.Intn(5)
		case 2:
			n = d.IOBuf * (1 + g.Intn(4))
		default:
			n = 20 + g.Intn(80)
		}
		if n > 70000 {
			n = 70000
		}
		if p.total+n > budget && n > 60 {
			n = 20 + g.Intn(40)
		}
		if p.total > budget {
			p.Lines = i
			break
		}
		if n < 5 {
			n = 5
		}
		l := mkLine(fmt.Sprintf("c05d%d", k), i, n, g)
		if g.Bool(0.04) {
			// a timestamp that validation accepts but a pickle cannot carry: verbatim in plain mode, skipped and counted
			// (bad_pickle) in pickle mode, and in neither case may it disturb its neighbours
			l = append(l, ".5"...)
		}
		p.total += len(l)
		p.lines = append(p.lines, l)
		pz := 0
		if g.Bool(0.15) {
			pz = []int{1, 5, d.FlushMs, 2 * d.FlushMs, 50}[g.Pick(5)]
		}
		p.pauses = append(p.pauses, pz)
		if i < 12 {
			p.Lens = append(p.Lens, len(l))
			p.Pauses = append(p.Pauses, pz)
		}
	}
	// keep the slowest reader fast enough to drain everything within a simulated minute
	if maxUs := 60e6 * float64(eff) / float64(p.total+1); float64(p.ReadUs) > maxUs {
		p.ReadUs = int(maxUs)
	}
	return p
}

func scenC05(x *Exec) {
	g := x.Gen
	cfg := SwarmConfig(g)
	p := c05Plan{Net: netConfig(g)}
	pickle := g.Bool(0.3)
	nd := 1
	if g.Bool(0.4) {
		nd = 2
	}
	for k := 0; k < nd; k++ {
		p.Dests = append(p.Dests, genC05Dest(x, g, k, pickle, p.Net))
	}
	if g.Bool(0.4) {
		for i, n := 0, 1+g.Intn(12); i < n; i++ {
			p.Flushes = append(p.Flushes, []int{0, 0, 1, 3, 10, 100}[g.Pick(6)])
		}
	}
	x.Out.Sample = p
	cfg.Horizon = 4 * time.Hour
	cfg.MaxSteps = 3000000
	prop := "C05"

	s := x.Bubble(cfg, func(s *simrt.Sim) {
		nw := simnet.NewNet(p.Net)
		simnet.Use(nw)
		eps := make([]*Endpoint, nd)
		dests := make([]*destination.Destination, nd)
		for k, pd := range p.Dests {
			ep := NewEndpoint(s, nw, pd.Dest.Addr)
			ep.ReadDelay = time.Duration(pd.ReadUs) * time.Microsecond
			ep.ReadBuf = pd.ReadBuf
			if err := ep.Start(); err != nil {
				s.Infra("endpoint: %v", err)
				return
			}
			eps[k] = ep
		}
		started := false
		cond := simrt.NewCond()
		s.Spawn("relay-boot", "relay", "relay1", func() {
			initRelayGlobals()
			for k, pd := range p.Dests {
				dest, err := pd.Dest.build("r", matcher.Matcher{})
				if err != nil {
					s.Infra("destination.New: %v", err)
					return
				}
				dest.Run()
				simrt.Yield("boot")
				dests[k] = dest
			}
			started = true
			cond.Broadcast()
		})
		cond.Wait(func() bool { return started }, time.Time{})
		for _, dest := range dests {
			for !dest.Online {
				simrt.Sleep(time.Millisecond)
			}
		}
		// one client task per destination hands its lines over, concurrently
		fin := 0
		for k := range p.Dests {
			k := k
			s.Spawn(fmt.Sprintf("client%d", k), "client", "harness", func() {
				pd := p.Dests[k]
				for i, l := range pd.lines {
					dests[k].In <- l
					simrt.Yield("handoff")
					if pd.pauses[i] > 0 {
						simrt.Sleep(time.Duration(pd.pauses[i]) * time.Millisecond)
					}
				}
				fin++
				cond.Broadcast()
			})
		}
		// flush timing is part of the property: manual flushes land between, and in the middle of, the hand-offs
		flushed := len(p.Flushes) == 0
		if !flushed {
			s.Spawn("flusher", "client", "harness", func() {
				for i, gap := range p.Flushes {
					if fin == nd {
						break
					}
					if gap > 0 {
						simrt.Sleep(time.Duration(gap) * time.Millisecond)
					}
					dests[i%nd].Flush()
					simrt.Yield("flushed")
					s.Probe("c05.manual_flush")
				}
				flushed = true
				cond.Broadcast()
			})
		}
		cond.Wait(func() bool { return fin == nd && flushed }, time.Time{})
		allOK := true
		recvTotal := 0
		for k, pd := range p.Dests {
			if !checkC05Dest(s, prop, pd, eps[k], &recvTotal) {
				allOK = false
				break
			}
		}
		if !allOK {
			return
		}
		x.Out.Nontrivial = recvTotal >= 10
		x.Out.StateSig = fmt.Sprintf("dests=%d recv=%d", nd, recvTotal)
		if pickle {
			s.Probe("c05.pickle_mode")
		}
		if nd > 1 {
			s.Probe("c05.two_destinations")
		}
	})
	finishRun(x, s, prop)
}

// checkC05Dest waits for the stream of one destination to settle and checks it against the hand-off sequence.
func checkC05Dest(s *simrt.Sim, prop string, pd *c05Dest, ep *Endpoint, recvTotal *int) bool {
	d := pd.Dest
	lines := pd.lines
	key := d.key("r")
	// let the periodic flush push everything out and the endpoint read it
	simrt.Sleep(2*time.Duration(d.FlushMs)*time.Millisecond + 50*time.Millisecond)
	deadline := time.Now().Add(10*time.Minute + time.Duration(pd.total/pd.ReadBuf+1)*ep.ReadDelay*3)
	var nrecv int
	for time.Now().Before(deadline) {
		nrecv = 0
		for _, ec := range ep.Conns {
			if d.Pickle {
				fr, _, _ := PickleFrames(ec.Data)
				nrecv += len(fr)
			} else {
				ls, _ := ec.Lines()
				nrecv += len(ls)
			}
		}
		if int64(nrecv)+counter("dest="+key+".unit=Metric.action=drop.reason=slow_conn")+counter("dest="+key+".unit=Metric.action=drop.reason=bad_pickle") >= int64(len(lines)) {
			break
		}
		simrt.Sleep(250 * time.Millisecond)
	}
	simrt.Sleep(time.Duration(d.FlushMs)*time.Millisecond + time.Millisecond)
	simrt.Quiesce()

	if len(ep.Conns) != 1 {
		s.Fail(prop+":reconnected", "the endpoint stayed healthy but saw %d connections", len(ep.Conns))
		return false
	}
	ec := ep.Conns[0]
	dropped := counter("dest=" + key + ".unit=Metric.action=drop.reason=slow_conn")
	out := counter("dest=" + key + ".unit=Metric.direction=out")
	badPickle := counter("dest=" + key + ".unit=Metric.action=drop.reason=bad_pickle")
	j := 0
	received := 0
	match := func(what string, eq func(h []byte) bool) bool {
		for j < len(lines) && !eq(lines[j]) {
			j++
		}
		if j == len(lines) {
			// not found ahead: is it an earlier line (duplicate / reordering) or garbage?
			for k := range lines {
				if eq(lines[k]) {
					s.Fail(prop+":order", "%s record #%d (%s) is hand-off #%d, out of order or duplicated", d.Addr, received, what, k)
					return false
				}
			}
			s.Fail(prop+":corrupt", "%s record #%d %s is not any handed-off line (torn, merged or altered)", d.Addr, received, what)
			return false
		}
		j++
		received++
		return true
	}
	if d.Pickle {
		frames, tail, err := PickleFrames(ec.Data)
		if err != nil {
			s.Fail(prop+":corrupt", "%s pickle stream: %v", d.Addr, err)
			return false
		}
		if len(tail) != 0 {
			s.Fail(prop+":torn-tail", "%s pickle stream ends with %d stray bytes after the final flush", d.Addr, len(tail))
			return false
		}
		for _, f := range frames {
			f := f
			ok := match(fmt.Sprintf("(%s,%d,%v)", shortStr(f.Name), f.TS, f.Val), func(h []byte) bool {
				fs := strings.Fields(string(h))
				v, _ := strconv.ParseFloat(fs[1], 64)
				ts, _ := strconv.ParseInt(fs[2], 10, 64)
				return fs[0] == f.Name && ts == f.TS && (v == f.Val || (math.IsNaN(v) && math.IsNaN(f.Val)))
			})
			if !ok {
				return false
			}
		}
	} else {
		recs, tail := ec.Lines()
		if len(tail) != 0 {
			s.Fail(prop+":torn-tail", "%s stream ends with an unterminated fragment %s after the final flush", d.Addr, Short(tail))
			return false
		}
		for _, rec := range recs {
			rec := rec
			if !match(Short(rec), func(h []byte) bool { return bytes.Equal(h, rec) }) {
				return false
			}
		}
	}
	missing := int64(len(lines) - received)
	if missing != dropped+badPickle {
		s.Fail(prop+":uncounted-loss", "%s: %d of %d handed-off lines never arrived but slow_conn counts %d", d.Addr, missing, len(lines), dropped)
		return false
	}
	if out != int64(received)+badPickle {
		// (the relay counts a line it could not pickle both as bad_pickle and as out; C05 makes no claim about that)
		s.Fail(prop+":out-counter", "%s: direction=out counts %d but %d records were received", d.Addr, out, received)
		return false
	}
	if dropped > 0 {
		s.Probe("c05.slow_conn_drops")
	}
	*recvTotal += received
	return true
}

func shortStr(s string) string {
	if len(s) > 40 {
		return s[:30] + "..."
	}
	return s
}

// finishRun turns panics and unfinished runs into outcomes.
func finishRun(x *Exec, s *simrt.Sim, prop string) {
	if s == nil {
		return
	}
	if len(s.Panics) > 0 && x.Out.Class == "" {
		p := s.Panics[0]
		kind := "panic"
		if p.Exit {
			kind = "exit"
		}
		x.Out.Class = prop + ":" + kind + ":" + panicSite(p.Stack)
		x.Out.Msg = fmt.Sprintf("task %s: %s\n%s", p.Task, p.Value, trimStack(p.Stack))
		x.Out.Log = s.Log()
	}
	if x.Out.Class == "" && x.Out.Infra == "" && s.Reason() != "driver done" {
		if s.GuardTrip != "" {
			x.Out.Class = prop + ":handoff-blocked"
			x.Out.Msg = s.GuardTrip
		} else if s.Reason() == "livelock" {
			x.Out.Class = prop + ":livelock"
			x.Out.Msg = "a relay task spins without ever blocking\n" + s.Describe()
		} else if x.AllowCutShort && (s.Reason() == "max-steps" || s.Reason() == "horizon" || s.Reason() == "real-time budget") {
			x.Out.Probes["run_cut_short."+s.Reason()]++
			x.Out.Nontrivial = false
			return
		} else {
			x.Out.Infra = "run did not finish: " + s.Reason() + "\n" + s.Describe()
		}
		x.Out.Log = s.Log()
		x.Out.TaskDump = s.Describe()
	}
	if os.Getenv("CRSIM_STACKS") != "" && (x.Out.Class != "" || x.Out.Infra != "") {
		buf := make([]byte, 1<<22)
		n := runtime.Stack(buf, true)
		fmt.Fprintf(os.Stderr, "goroutines at the end of the run:\n%s\n", buf[:n])
	}
}

// ---------------------------------------------------------------- C06

type c06Step struct {
	Kind string `json:"k"` // send sleep pause resume down up blackhole unblackhole closeafter
	N    int    `json:"n,omitempty"`
}

type c06Plan struct {
	Net    simnet.Config `json:"net"`
	A      destCfg       `json:"dest_a"`
	B      destCfg       `json:"dest_b"`
	AMode  string        `json:"a_mode"` // absent healthy adversary
	Steps  []c06Step     `json:"steps"`
	ReadUs int           `json:"a_read_delay_us"`
}

func scenC06(x *Exec) {
	g := x.Gen
	cfg := SwarmConfig(g)
	p := c06Plan{Net: netConfig(g)}
	if p.Net.SockBuf > 65536 {
		p.Net.SockBuf = 65536
	}
	mk := func(addr string) destCfg {
		d := defaultDestCfg(addr)
		d.FlushMs = []int{100, 1, 1000}[g.Pick(3)]
		d.ReconnMs = []int{1000, 50, 10000}[g.Pick(3)]
		d.ConnBuf = []int{10, 0, 1, 100, 1000}[g.Pick(5)]
		d.IOBuf = []int{64, 1, 100, 4096}[g.Pick(4)]
		return d
	}
	p.A, p.B = mk("10.1.1.1:2003"), mk("10.1.1.2:2003")
	p.AMode = []string{"adversary", "adversary", "absent", "healthy"}[g.Pick(4)]
	p.ReadUs = []int{0, 1000, 100000}[g.Pick(3)]
	nsteps := 5 + g.Intn(25)
	for i := 0; i < nsteps; i++ {
		k := "send"
		if p.AMode == "adversary" {
			k = []string{"send", "send", "send", "sleep", "pause", "resume", "down", "up", "blackhole", "unblackhole", "closeafter", "removeA", "readdressA", "moveB"}[g.Pick(14)]
		} else {
			k = []string{"send", "send", "sleep", "send", "send", "sleep", "moveB"}[g.Pick(7)]
		}
		st := c06Step{Kind: k}
		switch k {
		case "send":
			st.N = 1 + g.Intn(60)
			if g.Bool(0.1) {
				st.N = 300 + g.Intn(700)
			}
		case "sleep":
			st.N = []int{1, 20, 150, 1100, 11000}[g.Pick(5)]
		case "closeafter":
			st.N = 1 + g.Intn(3000)
		case "removeA":
			st.N = 20 + g.Intn(200) // lines a second dispatcher hands over while the destination is being removed
		}
		p.Steps = append(p.Steps, st)
	}
	{
		// a throttled reader must still be able to drain what a run sends within ~2 simulated minutes
		nbytes := 0
		for _, st := range p.Steps {
			if st.Kind == "send" {
				nbytes += st.N * 75
			}
		}
		eff := 4096
		if p.Net.MaxReadChunk > 0 && p.Net.MaxReadChunk < eff {
			eff = p.Net.MaxReadChunk
		}
		if p.Net.SockBuf < eff {
			eff = p.Net.SockBuf
		}
		if maxUs := 120e6 * float64(eff) / float64(nbytes+1); float64(p.ReadUs) > maxUs {
			p.ReadUs = int(maxUs)
		}
	}
	x.Out.Sample = p
	cfg.Horizon = 4 * time.Hour
	cfg.MaxSteps = 3000000
	prop := "C06"
	keyA, keyB := p.A.key("r"), p.B.key("r")

	s := x.Bubble(cfg, func(s *simrt.Sim) {
		nw := simnet.NewNet(p.Net)
		simnet.Use(nw)
		epA := NewEndpoint(s, nw, p.A.Addr)
		epA.ReadDelay = time.Duration(p.ReadUs) * time.Microsecond
		epA.ResetOnDown = g.Bool(0.5)
		epB := NewEndpoint(s, nw, p.B.Addr)
		if p.AMode != "absent" {
			epA.Start()
		}
		epB.Start()
		var rt route.Route
		var da, db *destination.Destination
		started := false
		cond := simrt.NewCond()
		s.Spawn("relay-boot", "relay", "relay1", func() {
			initRelayGlobals()
			var err error
			da, err = p.A.build("r", matcher.Matcher{})
			if err != nil {
				s.Infra("%v", err)
				return
			}
			db, _ = p.B.build("r", matcher.Matcher{})
			rt, err = route.NewSendAllMatch("r", matcher.Matcher{}, []*destination.Destination{da, db})
			if err != nil {
				s.Infra("%v", err)
				return
			}
			simrt.Yield("boot")
			started = true
			cond.Broadcast()
		})
		cond.Wait(func() bool { return started }, time.Time{})
		// steady state starts once the connections to the endpoints that are up are established
		for !db.Online || (p.AMode != "absent" && !da.Online) {
			simrt.Sleep(time.Millisecond)
		}
		var handed [][]byte
		adversarial := false
		removed, bgRunning, bgDone := false, 0, 0
		readdressed, movedB := false, false
		var epB2 *Endpoint
		keyB2 := destCfg{Addr: "10.1.1.3:2003"}.key("r")
		// positions in the route: A first, B second.  They are known rather than asked for: every question to the route needs
		// its lock, which a hanging admin call may hold for good
		idxB := func() int { return 1 }
		for _, st := range p.Steps {
			switch st.Kind {
			case "readdressA":
				// modDest addr=...: the bad endpoint's destination is pointed at an address that swallows the TCP handshake.
				// The admin call hangs in the dial for as long as it likes; hand-offs must not notice.
				if removed || readdressed {
					continue
				}
				readdressed, adversarial = true, true
				nw.SetBlackhole("10.1.1.9:2003", true)
				s.Spawn("admin-readdress", "admin", "relay1", func() {
					rt.UpdateDestination(0, map[string]string{"addr": "10.1.1.9:2003"})
					simrt.Yield("readdress-returned")
				})
				s.Probe("c06.a_readdressed_to_black_hole")
			case "moveB":
				// the healthy destination is pointed at another healthy endpoint while traffic flows: what the old connection
				// still holds must reach the old endpoint, everything later the new one, and every line one of them (or a counter)
				if movedB || readdressed || removed {
					// a readdress that hangs keeps the route's lock, so no further admin command gets through; a removal of A
					// that may still be in progress would make B's position in the route ambiguous
					continue
				}
				movedB = true
				epB2 = NewEndpoint(s, nw, "10.1.1.3:2003")
				epB2.Start()
				ib := idxB()
				moved := false
				s.Spawn("admin-move", "admin", "relay1", func() {
					rt.UpdateDestination(ib, map[string]string{"addr": "10.1.1.3:2003"})
					simrt.Yield("move-returned")
					moved = true
					cond.Broadcast()
				})
				for i, n := 0, 1+g.Intn(30); i < n; i++ {
					l := mkLine("c06", len(handed), 30+g.Intn(60), g)
					handed = append(handed, l)
					s.GuardBegin("endpoint", 20000)
					rt.Dispatch(l)
					simrt.Yield("dispatch-returned")
					s.GuardEnd()
				}
				cond.Wait(func() bool { return moved }, time.Now().Add(time.Minute))
				s.Probe("c06.b_moved_to_another_endpoint")
			case "removeA":
				// the bad endpoint's destination is deleted at runtime while a second dispatcher keeps handing lines to the
				// route: whatever state the connection is in (wedged in a write to a black hole, say), no hand-off may get
				// stuck.  The admin call itself may take as long as it likes.
				if removed || readdressed {
					continue
				}
				removed = true
				adversarial = true
				var lines [][]byte
				for i := 0; i < st.N; i++ {
					l := mkLine("c06", len(handed), 30+g.Intn(60), g)
					handed = append(handed, l)
					lines = append(lines, l)
				}
				bgRunning++
				s.Spawn("dispatcher2", "client", "harness", func() {
					for _, l := range lines {
						rt.Dispatch(l)
						simrt.Yield("dispatch2-returned")
					}
					bgDone++
					cond.Broadcast()
				})
				s.Spawn("admin", "admin", "relay1", func() {
					rt.DelDestination(0)
					simrt.Yield("deldest-returned")
					s.Probe("c06.removal_returned")
				})
				s.Probe("c06.a_removed_under_traffic")
			case "send":
				for i := 0; i < st.N; i++ {
					l := mkLine("c06", len(handed), 30+g.Intn(60), g)
					handed = append(handed, l)
					// boundedness: with the endpoints frozen and the clock stopped, the hand-off must still complete
					s.GuardBegin("endpoint", 20000)
					rt.Dispatch(l)
					simrt.Yield("dispatch-returned")
					s.GuardEnd()
				}
			case "sleep":
				simrt.Sleep(time.Duration(st.N) * time.Millisecond)
			case "pause":
				epA.Paused = true
				adversarial = true
				s.Probe("c06.a_never_reads")
			case "resume":
				epA.Paused = false
				epA.Cond.Broadcast()
			case "down":
				if epA.Up {
					adversarial = true
					epA.Down()
				}
			case "up":
				if !epA.Up {
					epA.Start()
				}
			case "blackhole":
				nw.SetBlackhole(p.A.Addr, true)
				adversarial = true
				s.Probe("c06.a_blackholed")
			case "unblackhole":
				nw.SetBlackhole(p.A.Addr, false)
			case "closeafter":
				epA.CloseAfter = st.N
				adversarial = true
			}
		}
		if bgRunning > 0 && !cond.Wait(func() bool { return bgDone == bgRunning }, time.Now().Add(5*time.Minute)) {
			s.Fail(prop+":handoff-blocked", "a hand-off that raced with the removal of the bad endpoint's destination has not returned after 5 simulated minutes\n%s", s.Describe())
			return
		}
		// steady-state accounting
		epA.Paused = false
		epA.Cond.Broadcast()
		nw.SetBlackhole(p.A.Addr, false)
		simrt.Sleep(3*time.Second + 2*time.Duration(p.B.FlushMs+p.A.FlushMs)*time.Millisecond)
		countRecv := func(eps ...*Endpoint) (int, map[string]int) {
			seen := map[string]int{}
			n := 0
			for _, ep := range eps {
				if ep == nil {
					continue
				}
				for _, ec := range ep.Conns {
					ls, _ := ec.Lines()
					for _, l := range ls {
						seen[string(l)]++
						n++
					}
				}
			}
			return n, seen
		}
		slowB := func() int64 {
			return counter("dest="+keyB+".unit=Metric.action=drop.reason=slow_conn") + counter("dest="+keyB2+".unit=Metric.action=drop.reason=slow_conn")
		}
		dl := time.Now().Add(5*time.Minute + 4*time.Duration(len(handed))*epA.ReadDelay)
		for time.Now().Before(dl) {
			nb, _ := countRecv(epB, epB2)
			na, _ := countRecv(epA)
			okA := p.AMode != "healthy" || int64(na)+counter("dest="+keyA+".unit=Metric.action=drop.reason=slow_conn") >= int64(len(handed))
			if okA && int64(nb)+slowB() >= int64(len(handed)) {
				break
			}
			simrt.Sleep(200 * time.Millisecond)
		}
		simrt.Quiesce()
		check := func(name, key string, eps ...*Endpoint) bool {
			n, seen := countRecv(eps...)
			drop := counter("dest=" + key + ".unit=Metric.action=drop.reason=slow_conn")
			if name == "B" {
				drop = slowB()
			}
			for _, l := range handed {
				if seen[string(l)] > 1 {
					s.Fail(prop+":duplicate", "healthy endpoint %s received %s %d times", name, Short(l), seen[string(l)])
					return false
				}
			}
			distinct := 0
			for _, l := range handed {
				if seen[string(l)] == 1 {
					distinct++
				}
			}
			if distinct != n {
				s.Fail(prop+":corrupt", "healthy endpoint %s received %d records of which only %d are handed-off lines", name, n, distinct)
				return false
			}
			if int64(len(handed)-distinct) != drop {
				s.Fail(prop+":uncounted-loss", "healthy endpoint %s: %d of %d lines missing but slow_conn counts %d", name, len(handed)-distinct, len(handed), drop)
				return false
			}
			return true
		}
		if !check("B", keyB, epB, epB2) {
			return
		}
		switch p.AMode {
		case "healthy":
			if !check("A", keyA, epA) {
				return
			}
		case "absent":
			if c := counter("dest=" + keyA + ".unit=Metric.action=drop.reason=conn_down_no_spool"); c != int64(len(handed)) {
				s.Fail(prop+":uncounted-loss", "endpoint A absent for the whole run, spooling off: %d lines handed but conn_down_no_spool counts %d", len(handed), c)
				return
			}
		}
		x.Out.Nontrivial = len(handed) >= 20 && (adversarial || p.AMode != "adversary")
		x.Out.StateSig = fmt.Sprintf("mode=%s handed=%d connsA=%d dropB=%d", p.AMode, len(handed), len(epA.Conns), counter("dest="+keyB+".unit=Metric.action=drop.reason=slow_conn"))
		s.Stop("driver done")
	})
	finishRun(x, s, prop)
}

// ---------------------------------------------------------------- C07

type c07Plan struct {
	Net       simnet.Config `json:"net"`
	Dest      destCfg       `json:"dest"`
	StartDown bool          `json:"start_down"`
	UpDownMs  []int         `json:"up_down_ms"` // alternating durations, starting with the initial state
	Lines     int           `json:"lines"`
	GapUs     []int         `json:"gap_us_choices"`
	Bursts    [][2]int      `json:"bursts"` // (lines, pause afterwards in ms); empty = steady traffic
	Reset     bool          `json:"reset_on_down"`
	StallMs   int           `json:"endpoint_hangs_before_dying_ms"`
	ReadUs    int           `json:"endpoint_read_delay_us"`
}

func scenC07(x *Exec) {
	g := x.Gen
	cfg := SwarmConfig(g)
	p := c07Plan{Net: netConfig(g)}
	// the property's fault model: while up the endpoint is healthy and prompt
	if p.Net.SockBuf < 100 {
		p.Net.SockBuf = 4096
	}
	if p.Net.MaxReadChunk > 0 && p.Net.MaxReadChunk < 1000 {
		p.Net.MaxReadChunk = 1000
	}
	d := defaultDestCfg("10.1.1.1:2003")
	d.Spool = true
	d.FlushMs = []int{100, 1, 1000, 5000, 3000, 7000}[g.Pick(6)]
	d.ReconnMs = []int{1000, 100, 5000}[g.Pick(3)]
	d.ConnBuf = []int{1000, 10, 30000}[g.Pick(3)]
	d.IOBuf = []int{4096, 64, 65536}[g.Pick(3)]
	d.SpoolBuf = []int{10000, 10, 100}[g.Pick(3)]
	d.SpoolMaxBytes = []int64{4096, 200, 1 << 20}[g.Pick(3)]
	d.SyncEvery = []int64{100, 1, 10000}[g.Pick(3)]
	d.SyncPeriodMs = []int{1000, 100}[g.Pick(2)]
	d.SpoolSleepUs = []int{500, 0, 5000}[g.Pick(3)]
	d.UnspoolSleepUs = []int{10, 1000, 10000}[g.Pick(3)]
	if x.Case.Tier == "thorough" && g.Bool(0.15) {
		d.FlushMs = []int{20000, 60000}[g.Pick(2)]
		d.ReconnMs = []int{20000, 60000}[g.Pick(2)]
	}
	p.Dest = d
	p.StartDown = g.Bool(0.3)
	ntr := 1 + g.Intn(5)
	for i := 0; i < ntr; i++ {
		p.UpDownMs = append(p.UpDownMs, []int{500, 5, 50, 2500, 12000, 25000, 10400, 11000, 21000, 800}[g.Pick(10)])
	}
	p.Lines = 50 + g.Intn(400)
	if x.Case.Tier == "thorough" && g.Bool(0.2) {
		p.Lines = 500 + g.Intn(2500)
	}
	p.GapUs = [][]int{{0, 100, 1000}, {1000, 10000, 50000}, {0}, {100000, 1000}}[g.Pick(4)]
	if g.Bool(0.5) {
		// bursty traffic: places bursts freely relative to flush ticks, keep-safe rotation and outages
		left := p.Lines
		for left > 0 {
			n := 1 + g.Intn(60)
			if n > left {
				n = left
			}
			left -= n
			p.Bursts = append(p.Bursts, [2]int{n, []int{100, 300, 1000, 700, 3000, 9000, 2500}[g.Pick(7)]})
		}
	}
	p.Reset = g.Bool(0.4)
	p.ReadUs = []int{0, 0, 100, 500}[g.Pick(4)]
	p.StallMs = []int{0, 0, 0, 200, 1000, 3000}[g.Pick(6)]
	x.Out.Sample = p
	cfg.Horizon = 12 * time.Hour
	cfg.MaxSteps = 6000000
	prop := "C07"
	key := d.key("r")

	s := x.Bubble(cfg, func(s *simrt.Sim) {
		nw := simnet.NewNet(p.Net)
		simnet.Use(nw)
		ep := NewEndpoint(s, nw, d.Addr)
		ep.ResetOnDown = p.Reset
		ep.ReadDelay = time.Duration(p.ReadUs) * time.Microsecond
		if !p.StartDown {
			ep.Start()
		}
		var dest *destination.Destination
		started := false
		cond := simrt.NewCond()
		s.Spawn("relay-boot", "relay", "relay1", func() {
			initRelayGlobals()
			var err error
			dest, err = d.build("r", matcher.Matcher{})
			if err != nil {
				s.Infra("%v", err)
				return
			}
			dest.Run()
			simrt.Yield("boot")
			started = true
			cond.Broadcast()
		})
		cond.Wait(func() bool { return started }, time.Time{})
		// the outage schedule runs beside the traffic
		schedDone := false
		s.Spawn("outages", "endpoint", "faults", func() {
			up := !p.StartDown
			for _, ms := range p.UpDownMs {
				simrt.Sleep(time.Duration(ms) * time.Millisecond)
				if up {
					if p.StallMs > 0 {
						// the endpoint hangs for a moment before it dies: what it had not read yet is gone with it.
						// (Short against the time the relay keeps written lines for replay; an endpoint that hangs for
						// longer than that is outside what the property can promise.)
						ep.Paused = true
						simrt.Sleep(time.Duration(p.StallMs) * time.Millisecond)
						s.Probe("endpoint.hung_before_dying")
					}
					ep.Down()
					ep.Paused = false
					ep.Cond.Broadcast()
				} else {
					ep.Start()
					s.Probe("endpoint.up_again")
				}
				up = !up
			}
			if !up {
				simrt.Sleep(50 * time.Millisecond)
				ep.Start()
			}
			schedDone = true
			cond.Broadcast()
		})
		var handed [][]byte
		burstIdx, burstLeft := 0, 0
		if len(p.Bursts) > 0 {
			burstLeft = p.Bursts[0][0]
		}
		for i := 0; i < p.Lines; i++ {
			l := mkLine("c07", i, 25+g.Intn(70), g)
			handed = append(handed, l)
			dest.In <- l
			simrt.Yield("handoff")
			if len(p.Bursts) > 0 {
				burstLeft--
				if burstLeft <= 0 {
					simrt.Sleep(time.Duration(p.Bursts[burstIdx][1]) * time.Millisecond)
					burstIdx++
					if burstIdx < len(p.Bursts) {
						burstLeft = p.Bursts[burstIdx][0]
					}
				}
				continue
			}
			if gap := p.GapUs[g.Pick(len(p.GapUs))]; gap > 0 {
				simrt.Sleep(time.Duration(gap) * time.Microsecond)
			}
		}
		cond.Wait(func() bool { return schedDone }, time.Time{})
		// the endpoint stays up from now on: the backlog must drain completely.  No fixed time bound is
		// imposed (unspooling pauses for up to two reconnect periods after every slow-connection drop):
		// the wait continues for as long as anything still moves, and gives up only after a window
		// without any progress (or a very generous absolute cap).
		window := 4*time.Duration(d.ReconnMs+d.FlushMs)*time.Millisecond + 45*time.Second
		maxWait := 8 * time.Hour
		dl := time.Now().Add(maxWait)
		recvSet := func() (map[string]int, int, string) {
			seen := map[string]int{}
			n := 0
			for _, ec := range ep.Conns {
				ls, _ := ec.Lines()
				for _, l := range ls {
					seen[string(l)]++
					n++
				}
			}
			return seen, n, ""
		}
		drops := func() int64 {
			return counter("dest="+key+".unit=Metric.action=drop.reason=slow_conn") + counter("dest="+key+".unit=Metric.action=drop.reason=slow_spool")
		}
		var seen map[string]int
		var total int
		calm := 0
		lastSig := ""
		lastChange := time.Now()
		for {
			seen, total, _ = recvSet()
			missing := 0
			for _, l := range handed {
				if seen[string(l)] == 0 {
					missing++
				}
			}
			sig := fmt.Sprintf("%d/%d/%d/%d", total, missing, dest.VerifSpoolDepth(), drops())
			if sig != lastSig {
				lastSig, lastChange = sig, time.Now()
			}
			// done when everything arrived and the spool has stayed empty for a while
			// (a redo batch may still be trickling into the spool)
			if missing == 0 && dest.VerifSpoolDepth() == 0 {
				calm++
			} else {
				calm = 0
			}
			if calm >= 30 || !time.Now().Before(dl) || time.Since(lastChange) > window {
				break
			}
			simrt.Sleep(500 * time.Millisecond)
		}
		simrt.Sleep(2*time.Duration(d.FlushMs)*time.Millisecond + 100*time.Millisecond)
		simrt.Quiesce()
		seen, total, _ = recvSet()
		isHanded := map[string]bool{}
		for _, l := range handed {
			isHanded[string(l)] = true
		}
		for _, ec := range ep.Conns {
			ls, _ := ec.Lines()
			for _, l := range ls {
				if !isHanded[string(l)] {
					s.Fail(prop+":corrupt", "the endpoint received the complete record %s which is not a handed-off line", Short(l))
					return
				}
			}
		}
		var missing [][]byte
		dups := 0
		for _, l := range handed {
			switch c := seen[string(l)]; {
			case c == 0:
				missing = append(missing, l)
			case c > 1:
				dups++
			}
		}
		dr := drops()
		for ci, ec := range ep.Conns {
			ls, tail := ec.Lines()
			s.Logf("connection %d (incarnation %d): %d bytes, %d complete lines, tail %d bytes, eof=%v killed=%v err=%v", ci, ec.Inc, len(ec.Data), len(ls), len(tail), ec.EOF, ec.Killed, ec.Err)
		}
		if int64(len(missing)) > dr {
			idx := 0
			for i, l := range handed {
				if bytes.Equal(l, missing[0]) {
					idx = i
				}
			}
			var idxs []int
			for i, l := range handed {
				if seen[string(l)] == 0 {
					idxs = append(idxs, i)
				}
			}
			s.Logf("missing hand-off indexes: %v", idxs)
			s.Fail(prop+":lost", "%d of %d handed-off lines were never received but slow_conn+slow_spool count only %d; first missing: hand-off #%d %s (spool depth %d, %d connections, no progress for %v)",
				len(missing), len(handed), dr, idx, Short(missing[0]), dest.VerifSpoolDepth(), len(ep.Conns), window)
			return
		}
		if depth := dest.VerifSpoolDepth(); depth != 0 {
			s.Fail(prop+":backlog", "the endpoint stays up, nothing has moved for %v, but the spool still holds %d lines", window, depth)
			return
		}
		x.Out.Nontrivial = len(ep.Conns) >= 1 && total >= 10
		x.Out.StateSig = fmt.Sprintf("handed=%d recv=%d missing=%d dups=%d drops=%d conns=%d", len(handed), total, len(missing), dups, dr, len(ep.Conns))
		if dups > 0 {
			s.Probe("c07.duplicates_delivered")
		}
		if dr > 0 {
			s.Probe("c07.counted_drops")
		}
		if counter("spool="+key+".unit=Metric.status=incomingBulk") > 0 {
			s.Probe("c07.redo_path_taken")
		}
		if counter("spool="+key+".unit=Metric.status=incomingRT") > 0 {
			s.Probe("c07.spooled_while_down")
		}
		s.Stop("driver done")
	})
	finishRun(x, s, prop)
}
