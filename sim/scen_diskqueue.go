package crsim

// Scenario S3: the disk spool queue (nsqd.DiskQueue) on the simulated disk.
// C09: exact persistent FIFO across clean restarts.
// C08: crash consistency, every file-operation boundary of every generated history.

import (
	"bytes"
	"fmt"
	"strings"
	"time"

	"crsim/simos"
	"crsim/simrt"

	"github.com/grafana/carbon-relay-ng/nsqd"
)

type dqOp struct {
	Kind string `json:"k"` // put get sleep
	Size int    `json:"n,omitempty"`
	Ms   int    `json:"ms,omitempty"`
}

type dqPhase struct {
	Prod      []dqOp `json:"prod"`
	Cons      []dqOp `json:"cons"`
	End       string `json:"end"` // reopen | end
	RaceClose bool   `json:"race_close,omitempty"`
}

type dqPlan struct {
	MaxBytes      int64     `json:"max_bytes_per_file"`
	SyncEvery     int64     `json:"sync_every"`
	SyncTimeoutMs int       `json:"sync_timeout_ms"`
	Phases        []dqPhase `json:"phases"`
}

func genDQPlan(g *simrt.Choices, crashMode bool) dqPlan {
	p := dqPlan{}
	p.MaxBytes = []int64{64, 1, 7, 16, 33, 100, 256, 1024, 4096}[g.Pick(9)]
	p.SyncEvery = []int64{3, 1, 2, 5, 10, 50, 2500}[g.Pick(7)]
	p.SyncTimeoutMs = []int{100, 10, 1000, 2000}[g.Pick(4)]
	nph := 1 + g.Intn(4)
	if crashMode {
		nph = 1 + g.Intn(2)
	}
	size := func() int {
		m := int(p.MaxBytes)
		switch g.Pick(10) {
		case 0:
			return 0
		case 1:
			return 1
		case 2:
			return m - 4
		case 3:
			return m
		case 4:
			return m + 1
		case 5:
			n := 2*m + 3
			if n > 700 {
				n = 700
			}
			return n
		case 6:
			return 5 + g.Intn(12)
		default:
			n := g.Intn(3*m + 1)
			if n > 600 {
				n = 600
			}
			return n
		}
	}
	for i := 0; i < nph; i++ {
		ph := dqPhase{End: "reopen"}
		if i == nph-1 {
			ph.End = "end"
		}
		nprod := g.Intn(14)
		for j := 0; j < nprod; j++ {
			if g.Bool(0.15) {
				ph.Prod = append(ph.Prod, dqOp{Kind: "sleep", Ms: []int{1, 5, 50, 150, 1200}[g.Pick(5)]})
			}
			s := size()
			if s < 0 {
				s = 0
			}
			ph.Prod = append(ph.Prod, dqOp{Kind: "put", Size: s})
		}
		ncons := g.Intn(14)
		for j := 0; j < ncons; j++ {
			if g.Bool(0.15) {
				ph.Cons = append(ph.Cons, dqOp{Kind: "sleep", Ms: []int{1, 5, 50, 150, 1200}[g.Pick(5)]})
			}
			ph.Cons = append(ph.Cons, dqOp{Kind: "get", Ms: []int{20, 1, 200, 3000}[g.Pick(4)]})
		}
		ph.RaceClose = ph.End == "reopen" && g.Bool(0.3)
		p.Phases = append(p.Phases, ph)
	}
	return p
}

func dqPayload(i, size int) []byte {
	b := make([]byte, 0, size)
	pre := fmt.Sprintf("M%d|", i)
	for len(b) < size {
		b = append(b, pre...)
	}
	return b[:size]
}

type dqRun struct {
	s        *simrt.Sim
	plan     dqPlan
	q        *nsqd.DiskQueue
	cond     *simrt.Cond
	enq      [][]byte // invoked puts, in order
	putDone  int      // returned puts
	deliv    [][]byte // received by the consumer, in order
	prodDone bool
	consDone bool
	crashed  bool
	crashAt  int
	// bookkeeping for C08, maintained by the simos hook
	dataWrites      int
	syncedWrites    int // data writes completed before the last completed sync
	syncedHanded    int // messages recorded by the consumer before the last completed sync (lower bound)
	syncsDone       int
	snapshot        *simos.FS
	handedAtCrash   int
	enqAtCrash      int
	putDoneAtCrash  int
	fs              *simos.FS
	stopConsumer    bool
	consumerWaiting bool
	seenSig         map[uint64]bool
	distinct        []int
}

const dqDir = "/spool"
const dqName = "spool_dq"

func (r *dqRun) open() *nsqd.DiskQueue {
	return nsqd.NewDiskQueue(dqName, dqDir, r.plan.MaxBytes, r.plan.SyncEvery, time.Duration(r.plan.SyncTimeoutMs)*time.Millisecond).(*nsqd.DiskQueue)
}

func (r *dqRun) hook(fs *simos.FS, op simos.Op) {
	if strings.HasSuffix(op.Path, ".dat") && op.Kind == "write" && !strings.Contains(op.Path, ".meta.") {
		r.dataWrites++
	}
	if op.Kind == "rename" && strings.HasSuffix(op.Arg, ".meta.dat") {
		r.syncedWrites = r.dataWrites
		r.syncedHanded = len(r.deliv)
		r.syncsDone++
		r.s.Probe("dq.sync_completed")
	}
	if op.Kind == "remove" {
		r.s.Probe("dq.segment_removed")
	}
	if r.crashAt == 0 {
		// base run: remember the boundaries that leave a distinct (disk image, harness-visible state)
		sig := fs.Hash() ^ uint64(len(r.deliv))*0x9E3779B97F4A7C15 ^ uint64(len(r.enq))*0xC2B2AE3D27D4EB4F ^ uint64(r.putDone)*0x165667B19E3779F9 ^ uint64(r.syncedWrites)<<40 ^ uint64(r.syncedHanded)<<52
		if !r.seenSig[sig] {
			r.seenSig[sig] = true
			r.distinct = append(r.distinct, op.N)
		}
	}
	if r.crashAt > 0 && op.N == r.crashAt && !r.crashed {
		// the relay dies right after this file operation
		r.crashed = true
		r.snapshot = fs.Clone()
		r.enqAtCrash = len(r.enq)
		r.putDoneAtCrash = r.putDone
		r.s.Logf("CRASH after op %d %s %s", op.N, op.Kind, op.Path)
		r.s.Kill("inc1")
		r.cond.Broadcast()
		// the calling task belongs to the dead incarnation (or is made to): it never continues
		simrt.Die()
	}
}

func (r *dqRun) consumer(ops []dqOp, done *bool) {
	for _, op := range ops {
		if r.crashed || r.stopConsumer {
			break
		}
		switch op.Kind {
		case "sleep":
			simrt.Sleep(time.Duration(op.Ms) * time.Millisecond)
		case "get":
			r.get(time.Duration(op.Ms) * time.Millisecond)
		}
	}
	*done = true
	r.cond.Broadcast()
}

func (r *dqRun) get(patience time.Duration) bool {
	q := r.q
	if q == nil {
		simrt.Sleep(patience)
		return false
	}
	tm := time.NewTimer(patience)
	defer tm.Stop()
	select {
	case m := <-q.ReadChan():
		simrt.Yield("dq.get")
		r.deliv = append(r.deliv, m)
		r.s.Logf("consumer got #%d %s", len(r.deliv)-1, Short(m))
		return true
	case <-tm.C:
		simrt.Yield("dq.get.timeout")
		return false
	}
}

func runDiskQueue(x *Exec, crashMode bool) {
	g := x.Gen
	cfg := SwarmConfig(g)
	plan := genDQPlan(g, crashMode)
	cfg.Horizon = 30 * time.Minute
	cfg.MaxSteps = 300000
	x.Out.Sample = plan
	crashAt := x.Param("crash")
	r := &dqRun{plan: plan, crashAt: crashAt, seenSig: map[uint64]bool{}}
	prop := x.Case.Prop

	s := x.Bubble(cfg, func(s *simrt.Sim) {
		r.s = s
		r.cond = simrt.NewCond()
		fs := simos.NewFS()
		fs.AfterOp = r.hook
		r.fs = fs
		simos.Use(fs)
		nmsg := 0

		// the lifecycle task owns New/Close so that a crash inside them kills it, not the driver
		lifecycle := func(name string, f func()) bool {
			fin := false
			s.Spawn(name, "relay", "inc1", func() { f(); simrt.Yield("dq.lifecycle"); fin = true; r.cond.Broadcast() })
			r.cond.Wait(func() bool { return fin || r.crashed }, time.Time{})
			return fin
		}
		if !lifecycle("open", func() { r.q = r.open() }) {
			goto crashed
		}
		for pi, ph := range plan.Phases {
			ph := ph
			r.prodDone, r.consDone = false, false
			s.Spawn(fmt.Sprintf("producer%d", pi), "client", "inc1", func() {
				for _, op := range ph.Prod {
					switch op.Kind {
					case "sleep":
						simrt.Sleep(time.Duration(op.Ms) * time.Millisecond)
					case "put":
						m := dqPayload(nmsg, op.Size)
						nmsg++
						r.enq = append(r.enq, m)
						s.Logf("put #%d invoke %s", len(r.enq)-1, Short(m))
						err := r.q.Put(m)
						simrt.Yield("dq.put.returned")
						if err != nil {
							s.Fail(prop+":put-error", "Put #%d returned %v", len(r.enq)-1, err)
						}
						r.putDone++
					}
				}
				r.prodDone = true
				r.cond.Broadcast()
			})
			s.Spawn(fmt.Sprintf("consumer%d", pi), "endpoint", "harness", func() { r.consumer(ph.Cons, &r.consDone) })
			r.cond.Wait(func() bool { return r.crashed || (r.prodDone && (r.consDone || ph.RaceClose)) }, time.Time{})
			if r.crashed {
				goto crashed
			}
			if r.consDone && !crashMode {
				// at rest: depth must equal enqueued - delivered
				simrt.Quiesce()
				if d := r.q.Depth(); d != int64(len(r.enq)-len(r.deliv)) {
					s.Fail(prop+":depth-at-rest", "phase %d: Depth()=%d but enqueued=%d delivered=%d", pi, d, len(r.enq), len(r.deliv))
				}
			}
			if ph.End == "reopen" {
				s.Probe("dq.clean_reopen")
				if ph.RaceClose && !r.consDone {
					s.Probe("dq.close_races_consumer")
				}
				old := r.q
				ok := lifecycle("close", func() {
					if err := old.Close(); err != nil {
						s.Fail(prop+":close-error", "Close returned %v", err)
					}
				})
				if !ok {
					goto crashed
				}
				if !lifecycle("reopen", func() { r.q = r.open() }) {
					goto crashed
				}
				r.cond.Wait(func() bool { return r.consDone || r.crashed }, time.Time{})
				if r.crashed {
					goto crashed
				}
				if !crashMode {
					simrt.Quiesce()
					if d := r.q.Depth(); d != int64(len(r.enq)-len(r.deliv)) {
						s.Fail(prop+":depth-after-reopen", "phase %d: Depth()=%d after reopen but enqueued=%d delivered=%d", pi, d, len(r.enq), len(r.deliv))
					}
				}
			}
		}
		if crashAt > 0 {
			s.Infra("crash point %d not reached (ops=%d): execution is not deterministic", crashAt, fs.Ops)
			return
		}
		if !crashMode {
			// final drain: everything enqueued must come out, in order, exactly once
			misses := 0
			for len(r.deliv) < len(r.enq) && misses < 3 {
				if !r.get(5 * time.Second) {
					misses++
				}
			}
			// and nothing more
			r.get(3 * time.Second)
			r.checkFIFO(prop)
			if d := r.q.Depth(); d != 0 && !s.Failed() {
				s.Fail(prop+":depth-final", "Depth()=%d after everything was delivered", d)
			}
		}
		if crashMode {
			x.Out.SubCases = fs.Ops
			x.Out.SubList = r.distinct
		}
		x.Out.Nontrivial = len(r.enq) >= 2 && len(r.deliv) >= 1
		x.Out.StateSig = fmt.Sprintf("enq=%d deliv=%d files=%d syncs=%d", len(r.enq), len(r.deliv), len(fs.Files()), r.syncsDone)
		s.Stop("driver done")
		return

	crashed:
		r.recover(x, s)
		s.Stop("driver done")
	})
	if s == nil {
		return
	}
	if len(s.Panics) > 0 && x.Out.Class == "" {
		p := s.Panics[0]
		x.Out.Class = prop + ":panic:" + panicSite(p.Stack)
		x.Out.Msg = fmt.Sprintf("task %s panicked: %s\n%s", p.Task, p.Value, trimStack(p.Stack))
		x.Out.Log = s.Log()
	}
	if x.Out.Class == "" && x.Out.Infra == "" && s.Reason() != "driver done" {
		x.Out.Class = prop + ":hang"
		x.Out.Msg = "the run did not finish: " + s.Reason() + "\n" + s.Describe()
		x.Out.Log = s.Log()
	}
	if crashMode && crashAt == 0 {
		// the base run only counts boundaries; a non-crash violation here belongs to C09
		if x.Out.Class != "" && !strings.Contains(x.Out.Class, ":panic") && !strings.Contains(x.Out.Class, ":hang") {
			x.Out.Class, x.Out.Msg = "", ""
		}
	}
}

func (r *dqRun) checkFIFO(prop string) {
	s := r.s
	for i := 0; i < len(r.deliv) && i < len(r.enq); i++ {
		if !bytes.Equal(r.deliv[i], r.enq[i]) {
			s.Fail(prop+":fifo-mismatch", "delivery #%d is %s but enqueued #%d was %s (enqueued=%d delivered=%d)", i, Short(r.deliv[i]), i, Short(r.enq[i]), len(r.enq), len(r.deliv))
			return
		}
	}
	if len(r.deliv) > len(r.enq) {
		s.Fail(prop+":extra-delivery", "delivered %d messages but only %d were enqueued; extra: %s", len(r.deliv), len(r.enq), Short(r.deliv[len(r.enq)]))
		return
	}
	if len(r.deliv) < len(r.enq) {
		s.Fail(prop+":lost", "only %d of %d enqueued messages were delivered; first missing #%d %s", len(r.deliv), len(r.enq), len(r.deliv), Short(r.enq[len(r.deliv)]))
	}
}

// recover reopens the queue on the crash snapshot and checks the C08 envelope.
func (r *dqRun) recover(x *Exec, s *simrt.Sim) {
	prop := x.Case.Prop
	// let the surviving consumer record a hand-off that completed before the crash
	r.stopConsumer = true
	r.cond.Wait(func() bool { return r.consDone }, time.Now().Add(10*time.Second))
	H := len(r.deliv)
	E := r.enq
	S := r.syncedWrites
	Hs := r.syncedHanded
	s.Logf("recovering: enqueued=%d (returned %d) handed=%d syncedWrites=%d syncedHanded>=%d files=%v", len(E), r.putDoneAtCrash, H, S, Hs, r.snapshot.Files())
	simos.Use(r.snapshot)
	r.snapshot.AfterOp = nil
	r.deliv = nil
	r.stopConsumer = false
	var q2 *nsqd.DiskQueue
	opened := false
	s.Spawn("reopen-after-crash", "relay", "inc2", func() { q2 = r.open(); simrt.Yield("dq.reopen"); opened = true; r.cond.Broadcast() })
	if !r.cond.Wait(func() bool { return opened }, time.Now().Add(time.Minute)) {
		s.Fail(prop+":hang", "reopening the queue on the crash image did not return")
		return
	}
	r.q = q2
	patience := 3*time.Duration(r.plan.SyncTimeoutMs)*time.Millisecond + 2*time.Second
	misses := 0
	for misses < 2 && len(r.deliv) <= len(E)+2 {
		if !r.get(patience) {
			misses++
		}
	}
	D := r.deliv
	// D must be a contiguous run of E, starting in [Hs, H] and reaching at least S
	found := false
	var why string
	if len(D) == 0 {
		if S <= H {
			found = true
		} else {
			why = fmt.Sprintf("nothing delivered although messages #%d..#%d were synced and not yet handed to the consumer", H, S-1)
		}
	} else {
		anyRun := false
		for st := 0; st+len(D) <= len(E); st++ {
			ok := true
			for i := range D {
				if !bytes.Equal(D[i], E[st+i]) {
					ok = false
					break
				}
			}
			if !ok {
				continue
			}
			anyRun = true
			end := st + len(D)
			if st > H {
				why = fmt.Sprintf("delivery starts at #%d but #%d was the first message not yet handed to the consumer: undelivered message skipped", st, H)
				continue
			}
			if st < Hs {
				why = fmt.Sprintf("delivery starts at #%d, re-delivering messages consumed before the last completed sync (consumed then: %d)", st, Hs)
				continue
			}
			if end < S && end < len(E) {
				why = fmt.Sprintf("delivery ends at #%d but messages up to #%d were written before the last completed sync", end-1, S-1)
				continue
			}
			found = true
			break
		}
		if !anyRun {
			why = fmt.Sprintf("the %d delivered messages are not a contiguous, intact, ordered run of the %d enqueued ones; first delivered: %s", len(D), len(E), Short(D[0]))
		}
	}
	if !found {
		s.Fail(prop+":recovery", "%s [handed=%d syncedWrites=%d enqueued=%d delivered=%d maxBytes=%d syncEvery=%d crash after op %d]", why, H, S, len(E), len(D), r.plan.MaxBytes, r.plan.SyncEvery, r.crashAt)
		return
	}
	// the reopened queue must still work: fresh messages go in (each Put returns) and whatever comes out from now on is, together
	// with the run delivered above, in the original relative order of everything ever enqueued (old incarnation first, then the
	// fresh ones) -- a record of the old incarnation that the crash cut off must not resurface behind a fresh message, and a fresh
	// message must not be replaced by stale bytes.  Whether every fresh message is delivered is outside the statement of C08 and
	// is only recorded.
	nFresh := 1 + r.crashAt%3
	var fresh [][]byte
	for i := 0; i <= nFresh; i++ {
		m := []byte(fmt.Sprintf("PROBE-after-crash-%d-%d-%s", r.crashAt, i, strings.Repeat("p", (r.crashAt*7+i*13)%40)))
		if r.crashAt%2 == 0 && H+i < len(E) && len(E[H+i]) > 0 {
			// as long as the message of the old incarnation it may come to lie on: a stale record behind it then stays well-formed
			pre := fmt.Sprintf("P%d.%d|", r.crashAt, i)
			m = m[:0]
			for len(m) < len(E[H+i]) {
				m = append(m, pre...)
			}
			m = m[:len(E[H+i])]
		}
		fresh = append(fresh, m)
	}
	put := func(m []byte) bool {
		putOK := false
		s.Spawn("probe-put", "client", "inc2", func() {
			err := q2.Put(m)
			simrt.Yield("dq.probe.returned")
			if err != nil {
				s.Fail(prop+":probe-put", "Put after recovery returned %v", err)
			}
			putOK = true
			r.cond.Broadcast()
		})
		if !r.cond.Wait(func() bool { return putOK }, time.Now().Add(time.Minute)) {
			s.Fail(prop+":hang", "Put on the recovered queue did not return within a simulated minute")
			return false
		}
		return true
	}
	r.deliv = nil
	if !put(fresh[0]) {
		return
	}
	// "never hangs": after the Put the queue must settle (no spinning I/O loop)
	for i := 0; i < 3; i++ {
		if r.get(patience) && bytes.Equal(r.deliv[len(r.deliv)-1], fresh[0]) {
			break
		}
	}
	for _, m := range fresh[1:] {
		if !put(m) {
			return
		}
	}
	misses = 0
	for misses < 2 && len(r.deliv) <= len(E)+len(fresh)+2 {
		if !r.get(patience) {
			misses++
		}
	}
	all := append(append([][]byte{}, E...), fresh...)
	last := -1
	if len(D) > 0 {
		for i := range E {
			if bytes.Equal(E[i], D[0]) {
				last = i + len(D) - 1
				break
			}
		}
	}
	freshGot := 0
	for k, m := range r.deliv {
		idx := -1
		for i := last + 1; i < len(all); i++ {
			if bytes.Equal(all[i], m) {
				idx = i
				break
			}
		}
		if idx < 0 {
			known := false
			for _, e := range all {
				if bytes.Equal(e, m) {
					known = true
					break
				}
			}
			if !known {
				s.Fail(prop+":garbage", "message %s delivered after recovery was never enqueued", Short(m))
			} else {
				s.Fail(prop+":order-after-recovery", "delivery #%d after the recovered run, %s, was enqueued before a message that had already been delivered (or is delivered twice): messages do not come out in their original relative order [recovered run %d messages, %d fresh messages, crash after op %d]", k, Short(m), len(D), len(fresh), r.crashAt)
			}
			return
		}
		if idx < len(E) && idx != last+1 {
			s.Fail(prop+":recovery", "message #%d of the old incarnation is delivered after the recovered run ended at #%d: the run is not contiguous", idx, last)
			return
		}
		if idx >= len(E) {
			freshGot++
		}
		last = idx
	}
	if freshGot == len(fresh) {
		s.Probe("dq.probe_delivered")
	} else {
		s.Probe("dq.probe_not_delivered")
	}
	x.Out.Nontrivial = len(E) >= 1
	x.Out.StateSig = fmt.Sprintf("crash=%d H=%d S=%d E=%d D=%d", r.crashAt, H, S, len(E), len(D))
	s.Probe("dq.crash_recovered")
	if len(D) > 0 {
		s.Probe("dq.crash_recovered_nonempty")
	}
}

func panicSite(stack string) string {
	// first frame below the panic that belongs to the relay
	lines := strings.Split(stack, "\n")
	for _, l := range lines {
		if strings.HasPrefix(l, "github.com/grafana/carbon-relay-ng/") {
			f := strings.TrimPrefix(l, "github.com/grafana/carbon-relay-ng/")
			if i := strings.Index(f, "("); i > 0 && !strings.Contains(f[:i], ".func") {
				f = f[:i]
			} else if i := strings.LastIndex(f, "("); i > 0 {
				f = f[:i]
			}
			return f
		}
	}
	return "unknown"
}

func trimStack(stack string) string {
	lines := strings.Split(stack, "\n")
	var out []string
	for i := 0; i < len(lines); i++ {
		if strings.Contains(lines[i], "carbon-relay-ng") || strings.Contains(lines[i], "panic") {
			out = append(out, lines[i])
		}
		if len(out) > 24 {
			break
		}
	}
	return strings.Join(out, "\n")
}

func init() {
	Register("C09", func(x *Exec) { runDiskQueue(x, false) })
	Register("C08", func(x *Exec) { runDiskQueue(x, true) })
}
