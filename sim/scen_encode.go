package crsim

// Scenario S8: re-encoding a forwarded line preserves the datapoint (C16).
// (a) pickle-mode destination -> frames decoded by CPython (batch step right after the run);
// (b) grafanaNet route -> MetricData decoded from POST bodies, with an independent implementation of
//     Graphite's storage-schemas rule selection.

import (
	"bytes"
	"encoding/hex"
	"encoding/json"
	"fmt"
	"os"
	"os/exec"
	"path/filepath"
	"regexp"
	"sort"
	"strconv"
	"strings"
	"time"

	"crsim/simhttp"
	"crsim/simnet"
	"crsim/simrt"

	"github.com/grafana/carbon-relay-ng/destination"
	"github.com/grafana/carbon-relay-ng/matcher"
	"github.com/grafana/carbon-relay-ng/route"
	"github.com/grafana/metrictank/schema"
)

func init() { Register("C16", scenC16) }

type schemaRule struct {
	Name       string `json:"name"`
	Pattern    string `json:"pattern"`
	Retentions string `json:"retentions"`
	Priority   *int   `json:"priority,omitempty"`
}

type c16Plan struct {
	Mode      string       `json:"mode"` // pickle | grafananet
	Companion bool         `json:"second_pickle_destination"`
	Lines     []string     `json:"lines_head"`
	N         int          `json:"lines"`
	Rules     []schemaRule `json:"schemas,omitempty"`
	OrgID     int          `json:"orgId,omitempty"`
	IOBuf     int          `json:"iobuf,omitempty"`
	Kafka     *c16Kafka    `json:"kafka,omitempty"`
}

var c16Vals = []string{"1", "0", "-1.5", "1e3", "+5", ".5", "0x1p-2", "NaN", "Inf", "-Inf", "1e400", "123456789.125", "1.", "5e-324", "1_0", "x", "0x10"}
var c16TS = []string{"1500000000", "0", "1", "4294967295", "4294967296", "1.5", "-1", "1e9", "x", "15000000000", "+5", "2147483648", "007"}
var c16Names = []string{"a.b.c", "servers.web1.cpu", "foo.bar", "foo.bar.baz", "stats.timers.x", "a.b;env=prod;dc=us", "a.b;dc=us;env=prod", "foo.bar;z=1;a=2", "srv.x;tag=v", "a.b;novalue", "a.b;=v", "a.b;k=", "x"}

func retentionSeconds(ret string) int {
	first := strings.TrimSpace(strings.Split(ret, ",")[0])
	p := strings.Split(first, ":")[0]
	if n, err := strconv.Atoi(p); err == nil {
		return n
	}
	unit := p[len(p)-1]
	n, _ := strconv.Atoi(p[:len(p)-1])
	switch unit {
	case 's':
		return n
	case 'm':
		return n * 60
	case 'h':
		return n * 3600
	case 'd':
		return n * 86400
	case 'w':
		return n * 86400 * 7
	case 'y':
		return n * 86400 * 365
	}
	return n
}

// refSchemaInterval: highest priority first, then file order; the first rule whose pattern is found
// in the series name as Graphite presents it (name, plus ";tag=value" pairs sorted, for tagged series).
func refSchemaInterval(rules []schemaRule, series string) int {
	idx := make([]int, len(rules))
	for i := range idx {
		idx[i] = i
	}
	prio := func(i int) int {
		if rules[i].Priority != nil {
			return *rules[i].Priority
		}
		return 0
	}
	sort.SliceStable(idx, func(a, b int) bool { return prio(idx[a]) > prio(idx[b]) })
	for _, i := range idx {
		if regexp.MustCompile(rules[i].Pattern).MatchString(series) {
			return retentionSeconds(rules[i].Retentions)
		}
	}
	return -1
}

func scenC16(x *Exec) {
	g := x.Gen
	cfg := SwarmConfig(g)
	p := c16Plan{Mode: []string{"pickle", "grafananet", "kafka"}[g.Pick(3)]}
	p.N = 10 + g.Intn(80)
	var lines []string
	for i := 0; i < p.N; i++ {
		name := c16Names[g.Pick(len(c16Names))]
		val := c16Vals[g.Pick(6)]
		ts := strconv.Itoa(1500000000 + i)
		switch g.Pick(6) {
		case 0:
			val = c16Vals[g.Pick(len(c16Vals))]
		case 1:
			ts = c16TS[g.Pick(len(c16TS))]
		}
		lines = append(lines, name+" "+val+" "+ts)
	}
	p.Lines = lines
	if len(p.Lines) > 12 {
		p.Lines = p.Lines[:12]
	}
	prop := "C16"
	cfg.Horizon = time.Hour

	if p.Mode == "pickle" {
		p.IOBuf = []int{4096, 1, 7, 64, 65536}[g.Pick(5)]
		p.Companion = g.Bool(0.5)
		if p.Companion && cfg.PreemptP < 0.2 {
			cfg.PreemptP, cfg.MaxBudget, cfg.SwitchP = 0.3, []int{3, 10, 40}[g.Pick(3)], 0.5
		}
		x.Out.Sample = p
		type frame struct {
			Hex  string `json:"hex"`
			Name string `json:"name"`
			Val  string `json:"val"`
			TS   string `json:"ts"`
		}
		var frames []frame
		s := x.Bubble(cfg, func(s *simrt.Sim) {
			nw := simnet.NewNet(simnet.DefaultConfig())
			simnet.Use(nw)
			ep := NewEndpoint(s, nw, "10.1.1.1:2003")
			ep.Start()
			d := defaultDestCfg("10.1.1.1:2003")
			d.Pickle = true
			d.FlushMs = 20
			d.IOBuf = p.IOBuf
			var dest *destination.Destination
			started := false
			cond := simrt.NewCond()
			s.Spawn("relay-boot", "relay", "relay1", func() {
				initRelayGlobals()
				var err error
				dest, err = d.build("r", matcher.Matcher{})
				if err != nil {
					s.Infra("%v", err)
					return
				}
				dest.Run()
				simrt.Yield("boot")
				started = true
				cond.Broadcast()
			})
			cond.Wait(func() bool { return started }, time.Time{})
			for !dest.Online {
				simrt.Sleep(time.Millisecond)
			}
			// a second pickle-mode destination works at the same time (encoders must not share state between connections)
			companionDone := true
			if p.Companion {
				companionDone = false
				ep2 := NewEndpoint(s, nw, "10.1.1.2:2003")
				ep2.Start()
				d2 := defaultDestCfg("10.1.1.2:2003")
				d2.Pickle, d2.FlushMs, d2.IOBuf = true, 20, []int{1, 7, 4096}[len(lines)%3]
				var dest2 *destination.Destination
				ready := false
				s.Spawn("relay-boot2", "relay", "relay1", func() {
					dd, err := d2.build("r", matcher.Matcher{})
					if err == nil {
						dd.Run()
						dest2 = dd
					}
					simrt.Yield("boot2")
					ready = true
					cond.Broadcast()
				})
				cond.Wait(func() bool { return ready }, time.Time{})
				if dest2 != nil {
					s.Spawn("companion", "client", "harness", func() {
						for i := 0; i < 2*len(lines)+10; i++ {
							dest2.In <- []byte(fmt.Sprintf("companion.series.with.a.long.name.%d %d.25 %d", i, i, 1400000000+i))
							simrt.Yield("handoff2")
						}
						companionDone = true
						cond.Broadcast()
					})
				} else {
					companionDone = true
				}
				s.Probe("c16.two_pickle_destinations")
			}
			for _, l := range lines {
				dest.In <- []byte(l)
				simrt.Yield("handoff")
			}
			cond.Wait(func() bool { return companionDone }, time.Now().Add(time.Minute))
			simrt.Sleep(300 * time.Millisecond)
			simrt.Quiesce()
			key := d.key("r")
			if c := counter("dest=" + key + ".unit=Metric.action=drop.reason=slow_conn"); c != 0 {
				s.Probe("c16.slow_conn_inconclusive")
				return
			}
			// which lines can be represented: integer timestamp within 32 bits, numeric value
			var want []string
			skipped := 0
			for _, l := range lines {
				f := strings.Fields(l)
				_, errV := strconv.ParseFloat(f[1], 64)
				tsv, errT := strconv.ParseUint(f[2], 10, 64)
				// a value that overflows float64 (1e400) is not a float64 datapoint either
				if errV != nil || errT != nil || tsv > 4294967295 {
					skipped++
					continue
				}
				want = append(want, l)
			}
			if len(ep.Conns) != 1 {
				s.Fail(prop+":reconnected", "%d connections", len(ep.Conns))
				return
			}
			data := ep.Conns[0].Data
			var bodies [][]byte
			for len(data) > 0 {
				if len(data) < 4 {
					s.Fail(prop+":framing", "stream ends inside a length prefix")
					return
				}
				n := int(uint32(data[0])<<24 | uint32(data[1])<<16 | uint32(data[2])<<8 | uint32(data[3]))
				if n > len(data)-4 {
					s.Fail(prop+":framing", "length prefix %d exceeds the remaining %d bytes", n, len(data)-4)
					return
				}
				bodies = append(bodies, data[4:4+n])
				data = data[4+n:]
			}
			if len(bodies) != len(want) {
				s.Fail(prop+":skipped-or-extra", "%d lines can be represented (%d cannot) but %d pickles were emitted", len(want), skipped, len(bodies))
				return
			}
			if c := counter("dest=" + key + ".unit=Metric.action=drop.reason=bad_pickle"); c != int64(skipped) {
				s.Fail(prop+":bad-pickle-counter", "bad_pickle counts %d, %d lines cannot be represented", c, skipped)
				return
			}
			for i, b := range bodies {
				f := strings.Fields(want[i])
				frames = append(frames, frame{hex.EncodeToString(b), f[0], f[1], f[2]})
			}
			x.Out.Nontrivial = len(frames) >= 3
			x.Out.StateSig = fmt.Sprintf("pickle frames=%d skipped=%d", len(frames), skipped)
		})
		finishRun(x, s, prop)
		if x.Out.Class != "" || x.Out.Infra != "" || len(frames) == 0 {
			return
		}
		// CPython is the reference decoder (outside the simulation)
		script := filepath.Join(os.Getenv("CRSIM_PY"), "check_pickle_frames.py")
		req, _ := json.Marshal(map[string]interface{}{"frames": frames})
		cmd := exec.Command("python3", script)
		cmd.Stdin = bytes.NewReader(req)
		outb, err := cmd.Output()
		if err != nil {
			x.Out.Infra = fmt.Sprintf("python check failed: %v (CRSIM_PY=%q)", err, os.Getenv("CRSIM_PY"))
			return
		}
		var bad []struct {
			I   int    `json:"i"`
			Why string `json:"why"`
		}
		if err := json.Unmarshal(outb, &bad); err != nil {
			x.Out.Infra = "python check output: " + string(outb)
			return
		}
		if len(bad) > 0 {
			b := bad[0]
			x.Out.Class = prop + ":python-decodes-differently"
			x.Out.Msg = fmt.Sprintf("line %q: %s", frames[b.I].Name+" "+frames[b.I].Val+" "+frames[b.I].TS, b.Why)
		}
		return
	}

	// ---- grafanaNet ----
	p.OrgID = []int{1, 7, 4242}[g.Pick(3)]
	pats := []string{`^foo\.bar$`, `^foo\.`, `\.cpu$`, `^servers\.`, `;dc=us;env=prod`, `^a\.b$`, `^stats`, `bar`, `;tag=v$`, `^srv\.x;`, `^a\.b;`}
	rets := []string{"10s:1d", "1m:7d,10m:1y", "60:1440", "1s:1h", "5m:30d", "30:100,300:1000", "1h:5y", "2s:1d"}
	nr := g.Intn(5)
	for i := 0; i < nr; i++ {
		r := schemaRule{Name: fmt.Sprintf("rule%d", i), Pattern: pats[g.Pick(len(pats))], Retentions: rets[g.Pick(len(rets))]}
		if g.Bool(0.3) {
			pr := []int{1, 5, -1, 100}[g.Pick(4)]
			r.Priority = &pr
		}
		p.Rules = append(p.Rules, r)
	}
	def := schemaRule{Name: "default", Pattern: ".*", Retentions: rets[g.Pick(len(rets))]}
	if g.Bool(0.2) && len(p.Rules) > 0 {
		// the catch-all in the middle of the file
		k := g.Intn(len(p.Rules))
		p.Rules = append(p.Rules[:k:k], append([]schemaRule{def}, p.Rules[k:]...)...)
	} else {
		p.Rules = append(p.Rules, def)
	}
	if p.Mode == "kafka" {
		p.Kafka = genC16Kafka(g)
	}
	x.Out.Sample = p
	var sb strings.Builder
	for _, r := range p.Rules {
		fmt.Fprintf(&sb, "[%s]\npattern = %s\nretentions = %s\n", r.Name, r.Pattern, r.Retentions)
		if r.Priority != nil {
			fmt.Fprintf(&sb, "priority = %d\n", *r.Priority)
		}
		sb.WriteString("\n")
	}
	sf, af, err := gnConfFiles(sb.String())
	if err != nil {
		x.Out.Infra = err.Error()
		return
	}
	if p.Mode == "kafka" {
		runC16Kafka(x, cfg, &p, lines, sf, sb.String())
		return
	}
	s := x.Bubble(cfg, func(s *simrt.Sim) {
		srv := &gnServer{s: s, cond: simrt.NewCond()}
		simhttp.Use(srv)
		var rt route.Route
		var berr error
		started := false
		cond := simrt.NewCond()
		s.Spawn("relay-boot", "relay", "relay1", func() {
			initRelayGlobals()
			c, err := route.NewGrafanaNetConfig("http://grafana.sim/metrics", "apikey", sf, af)
			if err != nil {
				berr = err
			} else {
				c.Concurrency = 1
				c.BufSize = 10000
				c.FlushMaxNum = 7
				c.FlushMaxWait = 50 * time.Millisecond
				c.OrgID = p.OrgID
				rt, berr = route.NewGrafanaNet("gn", matcher.Matcher{}, c)
			}
			simrt.Yield("boot")
			started = true
			cond.Broadcast()
		})
		cond.Wait(func() bool { return started }, time.Time{})
		if berr != nil {
			s.Infra("%v\n%s", berr, sb.String())
			return
		}
		for _, l := range lines {
			rt.Dispatch([]byte(l))
			simrt.Yield("dispatched")
		}
		simrt.Sleep(500 * time.Millisecond)
		simrt.Quiesce()
		var got []*schema.MetricData
		for _, r := range srv.Requests {
			if !r.Decoded {
				s.Fail(prop+":corrupt-body", "request #%d does not decode", r.N)
				return
			}
			got = append(got, r.Metrics...)
		}
		gi := 0
		for _, l := range lines {
			f := strings.Fields(l)
			val, errV := strconv.ParseFloat(f[1], 64)
			tsv, errT := strconv.ParseUint(f[2], 10, 64)
			parts := strings.Split(f[0], ";")
			name, tags := parts[0], append([]string(nil), parts[1:]...)
			sort.Strings(tags)
			series := name
			if len(tags) > 0 {
				series += ";" + strings.Join(tags, ";")
			}
			want := schema.MetricData{Name: name, Tags: tags, Value: val, Time: int64(tsv), OrgId: p.OrgID, Interval: refSchemaInterval(p.Rules, series), Unit: "unknown", Mtype: "gauge"}
			representable := errV == nil && errT == nil && tsv <= 4294967295 && want.Validate() == nil
			if !representable {
				if gi < len(got) && got[gi].Name == name && got[gi].Time == int64(tsv) && errT == nil && fmt.Sprint(got[gi].Value) == fmt.Sprint(val) && errV == nil && tsv > 4294967295 {
					s.Fail(prop+":unrepresentable-emitted", "line %q cannot be represented but a record %+v was emitted", l, *got[gi])
					return
				}
				continue
			}
			if gi >= len(got) {
				s.Fail(prop+":missing-record", "no record was emitted for line %q (%d records for %d lines)", l, len(got), len(lines))
				return
			}
			g0 := got[gi]
			gi++
			same := g0.Name == want.Name && strings.Join(g0.Tags, ";") == strings.Join(want.Tags, ";") && g0.Time == want.Time && g0.OrgId == want.OrgId &&
				(g0.Value == want.Value || (g0.Value != g0.Value && want.Value != want.Value))
			if !same {
				s.Fail(prop+":record-differs", "line %q became {name:%q tags:%v value:%v time:%d org:%d}, expected {name:%q tags:%v value:%v time:%d org:%d}", l, g0.Name, g0.Tags, g0.Value, g0.Time, g0.OrgId, want.Name, want.Tags, want.Value, want.Time, want.OrgId)
				return
			}
			if g0.Interval != want.Interval {
				s.Fail(prop+":interval", "series %q got interval %d; the first storage-schemas rule (priority, then file order) matching it gives %d\n%s", series, g0.Interval, want.Interval, sb.String())
				return
			}
		}
		if gi != len(got) {
			s.Fail(prop+":extra-record", "%d records were emitted, %d lines are representable; extra: %+v", len(got), gi, *got[gi])
			return
		}
		x.Out.Nontrivial = gi >= 3 && len(p.Rules) > 1
		x.Out.StateSig = fmt.Sprintf("grafananet records=%d rules=%d", gi, len(p.Rules))
	})
	finishRun(x, s, prop)
}
