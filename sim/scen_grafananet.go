package crsim

// Scenario S9: grafanaNet route against a scripted HTTP server (C17).

import (
	"bytes"
	"fmt"
	"io/ioutil"
	"net/http"
	"os"
	"path/filepath"
	"sort"
	"strings"
	"time"

	"crsim/simhttp"
	"crsim/simrt"

	"github.com/golang/snappy"
	"github.com/grafana/carbon-relay-ng/matcher"
	"github.com/grafana/carbon-relay-ng/route"
	"github.com/grafana/carbon-relay-ng/util"
	"github.com/grafana/metrictank/schema"
	"github.com/grafana/metrictank/schema/msg"
)

func init() { Register("C17", scenC17) }

// gnRequest is one POST to the metrics endpoint as the scripted server saw it.
type gnRequest struct {
	N       int
	Outcome string
	Acked   bool
	Metrics []*schema.MetricData
	Raw     []byte
	At      time.Duration
	Decoded bool
}

// gnServer answers requests from a fault sequence.
type gnServer struct {
	s        *simrt.Sim
	Script   []string // outcome per metrics POST, in arrival order; afterwards "ok"
	Requests []*gnRequest
	Config   int // config posts seen
	Frozen   bool
	cond     *simrt.Cond
}

func decodeGNBody(body []byte) ([]*schema.MetricData, error) {
	raw, err := ioutil.ReadAll(snappy.NewReader(bytes.NewReader(body)))
	if err != nil {
		return nil, fmt.Errorf("snappy: %v", err)
	}
	var m msg.MetricData
	if err := m.InitFromMsg(raw); err != nil {
		return nil, fmt.Errorf("msg header: %v", err)
	}
	if err := m.DecodeMetricData(); err != nil {
		return nil, fmt.Errorf("msgp: %v", err)
	}
	return m.Metrics, nil
}

func (g *gnServer) Serve(url string, header http.Header, body []byte) simhttp.Reply {
	if g.Frozen {
		// the remote end is frozen (boundedness window): nothing is answered until it thaws
		g.cond.Wait(func() bool { return !g.Frozen }, time.Time{})
	}
	if !strings.HasSuffix(url, "/metrics") {
		g.Config++
		return simhttp.Reply{Status: 200, Body: "ok"}
	}
	r := &gnRequest{N: len(g.Requests), Raw: body, At: g.s.Now()}
	g.Requests = append(g.Requests, r)
	ms, err := decodeGNBody(body)
	if err == nil {
		r.Metrics, r.Decoded = ms, true
	}
	out := "ok"
	if r.N < len(g.Script) {
		out = g.Script[r.N]
	}
	if !r.Decoded {
		out = "undecodable"
	}
	r.Outcome = out
	g.s.Probe("http." + out)
	g.s.Logf("http request #%d: %d metrics -> %s", r.N, len(r.Metrics), out)
	switch out {
	case "ok":
		r.Acked = true
		return simhttp.Reply{Status: 200, Body: fmt.Sprintf(`{"invalid":0,"published":%d}`, len(ms))}
	case "ok-slow":
		r.Acked = true
		return simhttp.Reply{Status: 200, Body: `{"invalid":0,"published":1}`, Delay: 20 * time.Millisecond}
	case "ok-badjson":
		r.Acked = true
		return simhttp.Reply{Status: 200, Body: `<html>not json`}
	case "ok-invalid":
		r.Acked = true
		return simhttp.Reply{Status: 200, Body: `{"invalid":1,"published":0,"validationErrors":{"bad":{"count":1,"exampleIds":[0]}}}`}
	case "400":
		return simhttp.Reply{Status: 400, Body: "bad request"}
	case "500":
		return simhttp.Reply{Status: 500, Body: "internal"}
	case "503":
		return simhttp.Reply{Status: 503, Body: strings.Repeat("x", 1000)}
	case "hang":
		return simhttp.Reply{Hang: true}
	case "stall-ok":
		// the endpoint has processed the request and said so (200); only the response body never arrives
		r.Acked = true
		return simhttp.Reply{Status: 200, Stall: true}
	case "stall-500":
		return simhttp.Reply{Status: 500, Stall: true}
	case "reset":
		return simhttp.Reply{Err: simhttp.ErrReset}
	case "undecodable":
		return simhttp.Reply{Status: 400, Body: "cannot decode"}
	}
	return simhttp.Reply{Status: 200, Body: "{}"}
}

var gnConfDir string

// gnConfFiles writes storage-schemas / storage-aggregation files on the real disk (they are read by
// third-party parsers that are not behind the simulated file system).
func gnConfFiles(schemas string) (string, string, error) {
	if gnConfDir == "" {
		d, err := ioutil.TempDir("", "crsim-conf-")
		if err != nil {
			return "", "", err
		}
		gnConfDir = d
	}
	sf := filepath.Join(gnConfDir, fmt.Sprintf("schemas-%016x-%d.conf", hashStr(schemas), len(schemas)))
	if _, err := os.Stat(sf); err != nil {
		if err := ioutil.WriteFile(sf, []byte(schemas), 0644); err != nil {
			return "", "", err
		}
	}
	af := filepath.Join(gnConfDir, "aggregation.conf")
	if _, err := os.Stat(af); err != nil {
		if err := ioutil.WriteFile(af, []byte("[default]\npattern = .*\nxFilesFactor = 0.5\naggregationMethod = average\n"), 0644); err != nil {
			return "", "", err
		}
	}
	return sf, af, nil
}

func hashStr(s string) uint64 {
	h := uint64(1469598103934665603)
	for i := 0; i < len(s); i++ {
		h = (h ^ uint64(s[i])) * 1099511628211
	}
	return h
}

type c17Plan struct {
	Concurrency  int      `json:"concurrency"`
	BufSize      int      `json:"bufSize"`
	FlushMaxNum  int      `json:"flushMaxNum"`
	FlushMaxWait int      `json:"flushMaxWait_ms"`
	TimeoutMs    int      `json:"timeout_ms"`
	Blocking     bool     `json:"blocking"`
	BackoffMin   int      `json:"errBackoffMin_ms"`
	Script       []string `json:"fault_sequence"`
	Series       int      `json:"series"`
	Points       int      `json:"points"`
	Shutdown     bool     `json:"shutdown_at_end"`
	Early        bool     `json:"shutdown_with_backlog"` // shut down right after the last hand-off instead of after the backlog drained
	Burst        bool     `json:"burst_with_frozen_server"`
}

func scenC17(x *Exec) {
	g := x.Gen
	cfg := SwarmConfig(g)
	p := c17Plan{}
	p.Concurrency = []int{1, 2, 3, 5}[g.Pick(4)]
	p.BufSize = []int{1000, 5, 20, 100}[g.Pick(4)] * p.Concurrency
	p.FlushMaxNum = []int{10, 1, 3, 100}[g.Pick(4)]
	p.FlushMaxWait = []int{100, 10, 500}[g.Pick(3)]
	p.TimeoutMs = []int{1000, 200, 5000}[g.Pick(3)]
	p.Blocking = g.Bool(0.4)
	p.BackoffMin = []int{100, 10, 1000}[g.Pick(3)]
	outcomes := []string{"ok", "ok", "ok", "ok-slow", "ok-badjson", "ok-invalid", "400", "500", "503", "hang", "reset", "stall-ok", "stall-500"}
	for i, n := 0, g.Intn(25); i < n; i++ {
		p.Script = append(p.Script, outcomes[g.Pick(len(outcomes))])
	}
	p.Series = 1 + g.Intn(12)
	p.Points = 20 + g.Intn(150)
	p.Shutdown = g.Bool(0.5)
	p.Burst = !p.Blocking && g.Bool(0.4)
	p.Early = p.Shutdown && g.Bool(0.5)
	if p.Burst && cfg.PreemptP < 0.2 && g.Bool(0.7) {
		// two dispatchers racing for the last free slot of a shard's queue: favour preemptive schedules
		cfg.PreemptP = []float64{0.2, 0.6}[g.Pick(2)]
		cfg.MaxBudget = []int{3, 10, 40}[g.Pick(3)]
		cfg.SwitchP = 0.5
	}
	x.Out.Sample = p
	cfg.Horizon = 6 * time.Hour
	prop := "C17"
	sf, af, err := gnConfFiles("[default]\npattern = .*\nretentions = 10s:1d\n")
	if err != nil {
		x.Out.Infra = err.Error()
		return
	}

	s := x.Bubble(cfg, func(s *simrt.Sim) {
		srv := &gnServer{s: s, Script: p.Script, cond: simrt.NewCond()}
		simhttp.Use(srv)
		var rt route.Route
		var berr error
		started := false
		cond := simrt.NewCond()
		s.Spawn("relay-boot", "relay", "relay1", func() {
			initRelayGlobals()
			c, err := route.NewGrafanaNetConfig("http://grafana.sim/metrics", "apikey", sf, af)
			if err != nil {
				berr = err
			} else {
				c.Concurrency = p.Concurrency
				c.BufSize = p.BufSize
				c.FlushMaxNum = p.FlushMaxNum
				c.FlushMaxWait = time.Duration(p.FlushMaxWait) * time.Millisecond
				c.Timeout = time.Duration(p.TimeoutMs) * time.Millisecond
				c.Blocking = p.Blocking
				c.ErrBackoffMin = time.Duration(p.BackoffMin) * time.Millisecond
				rt, berr = route.NewGrafanaNet("gn", matcher.Matcher{}, c)
			}
			simrt.Yield("boot")
			started = true
			cond.Broadcast()
		})
		cond.Wait(func() bool { return started }, time.Time{})
		if berr != nil {
			s.Infra("%v", berr)
			return
		}
		type pt struct {
			series string
			ts     int64
			val    float64
			drop   bool // queue_full moved during this hand-off
		}
		var pts []*pt
		dropName := "dest=" + util.AddrToPath("http://grafana.sim/metrics") + ".unit=Metric.action=drop.reason=queue_full"
		nextTS := map[string]int64{}
		send := func(n int, guarded bool) {
			for i := 0; i < n; i++ {
				series := fmt.Sprintf("gn.series%d", g.Intn(p.Series))
				nextTS[series]++
				q := &pt{series: series, ts: 1500000000 + nextTS[series], val: float64(len(pts))}
				pts = append(pts, q)
				before := counter(dropName)
				if guarded {
					// non-blocking mode: the hand-off must complete with the server frozen and the clock stopped
					srv.Frozen = true
					s.GuardBegin("endpoint", 20000)
				}
				rt.Dispatch([]byte(fmt.Sprintf("%s %v %d", q.series, q.val, q.ts)))
				simrt.Yield("dispatched")
				if guarded {
					s.GuardEnd()
					srv.Frozen = false
					srv.cond.Broadcast()
				}
				q.drop = counter(dropName) > before
			}
		}
		remaining := p.Points
		for remaining > 0 {
			n := 1 + g.Intn(20)
			if n > remaining {
				n = remaining
			}
			send(n, !p.Blocking)
			remaining -= n
			if g.Bool(0.5) {
				simrt.Sleep(time.Duration(g.Intn(2*p.FlushMaxWait+1)) * time.Millisecond)
			}
		}
		if p.Burst {
			// fill the buffers far beyond their size: drops must be counted, dispatch must never stall - also not when two
			// input connections hand metrics to the same shards at once (their points are not part of the acknowledgement
			// accounting: a drop of theirs may be attributed to the main dispatcher, which only weakens that check)
			d2done := false
			nprobe := 3*p.BufSize + 10
			s.Spawn("dispatcher2", "client", "harness", func() {
				for i := 0; i < nprobe; i++ {
					rt.Dispatch([]byte(fmt.Sprintf("gn.probe%d %d %d", i%3, i, 1600000000+i)))
					simrt.Progress() // a completed hand-off: this task is not spinning, however many of them it does without waiting
					simrt.Yield("dispatched2")
				}
				d2done = true
				cond.Broadcast()
			})
			send(3*p.BufSize+10, true)
			// with the server frozen and the clock stopped the second dispatcher must still get through all its hand-offs
			srv.Frozen = true
			s.GuardBegin("endpoint", 200000+100*nprobe)
			cond.Wait(func() bool { return d2done }, time.Time{})
			s.GuardEnd()
			srv.Frozen = false
			srv.cond.Broadcast()
			s.Probe("c17.burst_beyond_buffer")
		}
		// after the last fault everything accepted must be acknowledged within a generous bound
		accepted := 0
		for _, q := range pts {
			if !q.drop {
				accepted++
			}
		}
		ackedSet := func() map[string]bool {
			m := map[string]bool{}
			for _, r := range srv.Requests {
				if r.Acked {
					for _, md := range r.Metrics {
						if !strings.HasPrefix(md.Name, "gn.probe") { // the second dispatcher's points are not accounted for
							m[fmt.Sprintf("%s@%d", md.Name, md.Time)] = true
						}
					}
				}
			}
			return m
		}
		bound := time.Duration(len(p.Script)+5)*(35*time.Second+time.Duration(p.TimeoutMs)*time.Millisecond) + 2*time.Minute
		deadline := time.Now().Add(bound)
		for !p.Early && time.Now().Before(deadline) {
			// (by membership, not by count: with the second dispatcher around, a point of the main one may be marked as dropped
			// although it was accepted, and would then inflate the count of acknowledged points)
			as := ackedSet()
			all := true
			for _, q := range pts {
				if !q.drop && !as[fmt.Sprintf("%s@%d", q.series, q.ts)] {
					all = false
					break
				}
			}
			if all {
				break
			}
			simrt.Sleep(500 * time.Millisecond)
		}
		if p.Early && len(ackedSet()) < accepted {
			s.Probe("c17.shutdown_with_backlog")
		}
		if p.Shutdown {
			done := false
			s.Spawn("shutdown", "admin", "relay1", func() {
				rt.Shutdown()
				simrt.Yield("shutdown-returned")
				done = true
				cond.Broadcast()
			})
			if !cond.Wait(func() bool { return done }, time.Now().Add(bound+10*time.Minute)) {
				s.Fail(prop+":shutdown-hangs", "Route.Shutdown() did not return within %v simulated time after the last fault (concurrency %d)\n%s", bound+10*time.Minute, p.Concurrency, s.Describe())
				return
			}
			s.Probe("c17.shutdown_returned")
		}
		simrt.Quiesce()
		for _, r := range srv.Requests {
			if !r.Decoded {
				s.Fail(prop+":corrupt-body", "request #%d carried a body that does not decode (snappy/msgp), %d bytes", r.N, len(r.Raw))
				return
			}
		}
		acked := ackedSet()
		for i, q := range pts {
			if q.drop {
				continue
			}
			if !acked[fmt.Sprintf("%s@%d", q.series, q.ts)] {
				s.Fail(prop+":not-acknowledged", "point #%d %s@%d was accepted into the buffer but is in no acknowledged POST (%d requests, %d accepted points, %d acknowledged)", i, q.series, q.ts, len(srv.Requests), accepted, len(acked))
				return
			}
		}
		if p.Blocking && counter(dropName) != 0 {
			s.Fail(prop+":dropped-in-blocking-mode", "blocking mode dropped %d metrics", counter(dropName))
			return
		}
		// a failed batch is retried (same content) before any later batch that carries one of its series
		for i, r := range srv.Requests {
			if r.Acked {
				continue
			}
			series := map[string]bool{}
			for _, md := range r.Metrics {
				series[md.Name] = true
			}
			for _, r2 := range srv.Requests[i+1:] {
				touches := false
				for _, md := range r2.Metrics {
					if series[md.Name] {
						touches = true
					}
				}
				if !touches {
					continue
				}
				if !sameMetrics(r.Metrics, r2.Metrics) {
					s.Fail(prop+":batch-skipped", "request #%d (%s) failed but the next request for its series, #%d, carries different metrics: %s vs %s", r.N, r.Outcome, r2.N, descMetrics(r.Metrics), descMetrics(r2.Metrics))
					return
				}
				break
			}
		}
		// per series, first acknowledgement in hand-off order
		firstAck := map[string][]int64{}
		seen := map[string]bool{}
		for _, r := range srv.Requests {
			if !r.Acked {
				continue
			}
			for _, md := range r.Metrics {
				k := fmt.Sprintf("%s@%d", md.Name, md.Time)
				if !seen[k] {
					seen[k] = true
					firstAck[md.Name] = append(firstAck[md.Name], md.Time)
				}
			}
		}
		for name, tss := range firstAck {
			if !sort.SliceIsSorted(tss, func(i, j int) bool { return tss[i] < tss[j] }) {
				s.Fail(prop+":series-order", "points of %s were first acknowledged in the order %v (handed over with increasing timestamps)", name, tss)
				return
			}
		}
		x.Out.Nontrivial = len(srv.Requests) >= 2
		nfail := 0
		for _, r := range srv.Requests {
			if !r.Acked {
				nfail++
			}
		}
		x.Out.StateSig = fmt.Sprintf("conc=%d requests=%d failed=%d points=%d dropped=%d", p.Concurrency, len(srv.Requests), nfail, len(pts), counter(dropName))
	})
	finishRun(x, s, prop)
}

func sameMetrics(a, b []*schema.MetricData) bool {
	if len(a) != len(b) {
		return false
	}
	for i := range a {
		if a[i].Name != b[i].Name || a[i].Time != b[i].Time || a[i].Value != b[i].Value {
			return false
		}
	}
	return true
}

func descMetrics(a []*schema.MetricData) string {
	var s []string
	for i, m := range a {
		if i > 4 {
			s = append(s, "...")
			break
		}
		s = append(s, fmt.Sprintf("%s@%d", m.Name, m.Time))
	}
	return fmt.Sprintf("%d[%s]", len(a), strings.Join(s, " "))
}
