package crsim

// Scenario S7: consistent hashing (C15).  Agreement with carbon is checked against a corpus computed by a
// Python transcription of carbon's ConsistentHashRing (py/carbon_ring.py); membership changes under
// traffic run on the simulator.

import (
	"encoding/json"
	"fmt"
	"io/ioutil"
	"os"
	"strings"
	"time"

	"crsim/simnet"
	"crsim/simrt"

	"github.com/grafana/carbon-relay-ng/destination"
	"github.com/grafana/carbon-relay-ng/matcher"
	"github.com/grafana/carbon-relay-ng/route"
)

func init() { Register("C15", scenC15) }

type ringCase struct {
	Addrs  []string    `json:"addrs"`
	Nodes  [][]*string `json:"nodes"`
	Keys   []string    `json:"keys"`
	Owners [][]*string `json:"owners"`
}

type ringCorpus struct {
	Rings []ringCase `json:"rings"`
}

var loadedRings *ringCorpus

func loadRingCorpus() (*ringCorpus, error) {
	if loadedRings != nil {
		return loadedRings, nil
	}
	path := os.Getenv("CRSIM_RINGS")
	if path == "" {
		return nil, fmt.Errorf("CRSIM_RINGS is not set (bin/check generates the corpus with py/carbon_ring.py)")
	}
	b, err := ioutil.ReadFile(path)
	if err != nil {
		return nil, err
	}
	var c ringCorpus
	if err := json.Unmarshal(b, &c); err != nil {
		return nil, err
	}
	loadedRings = &c
	return loadedRings, nil
}

func nodeID(host string, inst *string) string {
	if inst == nil {
		return host + "|None"
	}
	return host + "|" + *inst
}

func destNodeID(d *destination.Destination) string {
	host := strings.Split(d.Addr, ":")[0]
	if d.Instance == "" {
		return host + "|None"
	}
	return host + "|" + d.Instance
}

func mkHashDests(addrs []string) ([]*destination.Destination, error) {
	var out []*destination.Destination
	for _, a := range addrs {
		dc := fastDestCfg(a)
		d, err := dc.build("hash", matcher.Matcher{})
		if err != nil {
			return nil, err
		}
		out = append(out, d)
	}
	return out, nil
}

type c15Op struct {
	Kind string `json:"k"` // send add del move sleep
	N    int    `json:"n,omitempty"`
	Idx  int    `json:"idx,omitempty"`
}

type c15Plan struct {
	Ring  int      `json:"corpus_ring"`
	Addrs []string `json:"initial_addrs"`
	Spare []string `json:"spare_addrs"`
	Perm  []int    `json:"listing_permutation"`
	Ops   []c15Op  `json:"ops"`
}

func scenC15(x *Exec) {
	corpus, err := loadRingCorpus()
	if err != nil {
		x.Out.Infra = err.Error()
		return
	}
	g := x.Gen
	cfg := SwarmConfig(g)
	ri := g.Intn(len(corpus.Rings))
	rc := corpus.Rings[ri]
	p := c15Plan{Ring: ri}
	// start with a prefix of the corpus ring's nodes; the rest can be added at run time
	n0 := len(rc.Addrs)
	if n0 > 2 && g.Bool(0.6) {
		n0 = 2 + g.Intn(n0-1)
	}
	p.Addrs = append([]string(nil), rc.Addrs[:n0]...)
	p.Spare = append([]string(nil), rc.Addrs[n0:]...)
	p.Perm = make([]int, len(rc.Addrs))
	for i := range p.Perm {
		p.Perm[i] = i
	}
	for i := len(p.Perm) - 1; i > 0; i-- {
		j := g.Intn(i + 1)
		p.Perm[i], p.Perm[j] = p.Perm[j], p.Perm[i]
	}
	nops := 3 + g.Intn(8)
	for i := 0; i < nops; i++ {
		switch g.Pick(6) {
		case 5:
			p.Ops = append(p.Ops, c15Op{Kind: "move", Idx: g.Intn(8)})
		case 0:
			p.Ops = append(p.Ops, c15Op{Kind: "add"})
		case 1:
			p.Ops = append(p.Ops, c15Op{Kind: "del", Idx: g.Intn(8)})
		case 2:
			p.Ops = append(p.Ops, c15Op{Kind: "sleep", N: 1 + g.Intn(30)})
		default:
			p.Ops = append(p.Ops, c15Op{Kind: "send", N: 10 + g.Intn(80)})
		}
	}
	p.Ops = append(p.Ops, c15Op{Kind: "send", N: 40})
	x.Out.Sample = p
	cfg.Horizon = time.Hour
	prop := "C15"

	s := x.Bubble(cfg, func(s *simrt.Sim) {
		nc := simnet.DefaultConfig()
		nc.SockBuf = 1 << 20
		nw := simnet.NewNet(nc)
		simnet.Use(nw)
		var rt route.Route
		var berr error
		started := false
		cond := simrt.NewCond()
		eps := map[string]*Endpoint{}
		startEp := func(addr string) {
			hp := strings.Join(strings.Split(addr, ":")[:2], ":")
			ep := NewEndpoint(s, nw, hp)
			ep.Start()
			eps[addr] = ep
		}
		var pureErr string
		s.Spawn("relay-boot", "relay", "relay1", func() {
			initRelayGlobals()
			tableFlushMs = 20
			// ---- part A: agreement with carbon, independent of listing order (no traffic needed) ----
			full, err := mkHashDests(rc.Addrs)
			if err != nil {
				berr = err
				started = true
				cond.Broadcast()
				return
			}
			h := route.NewConsistentHasher(full)
			perm := make([]*destination.Destination, len(full))
			for i, j := range p.Perm {
				perm[i] = full[j]
			}
			hp := route.NewConsistentHasher(perm)
			ref := NewRefRing(rc.Addrs)
			for ki, k := range rc.Keys {
				want := nodeID(*rc.Owners[ki][0], rc.Owners[ki][1])
				got := destNodeID(full[h.GetDestinationIndex([]byte(k))])
				gotPerm := destNodeID(perm[hp.GetDestinationIndex([]byte(k))])
				refGot := destNodeID(full[ref.Owner([]byte(k))])
				switch {
				case got != want:
					pureErr = fmt.Sprintf("key %q: the relay picks %s, carbon's ring picks %s (destinations %v)", k, got, want, rc.Addrs)
				case gotPerm != want:
					pureErr = fmt.Sprintf("key %q: with the destinations listed in order %v the relay picks %s, carbon picks %s", k, p.Perm, gotPerm, want)
				case refGot != want:
					s.Infra("the harness ring model disagrees with the Python transcription for %q: %s vs %s", k, refGot, want)
				}
				if pureErr != "" {
					break
				}
			}
			// ---- part B: a real route with the initial members ----
			dests, err := mkHashDests(p.Addrs)
			if err != nil {
				berr = err
			} else {
				for _, a := range p.Addrs {
					startEp(a)
				}
				rt, berr = route.NewConsistentHashing("hash", matcher.Matcher{}, dests)
			}
			simrt.Yield("boot")
			started = true
			cond.Broadcast()
		})
		cond.Wait(func() bool { return started }, time.Time{})
		if berr != nil {
			s.Infra("%v", berr)
			return
		}
		if pureErr != "" {
			s.Fail(prop+":disagrees-with-carbon", "%s", pureErr)
			return
		}
		members := append([]string(nil), p.Addrs...)
		waitOnline := func() {
			for i := range members {
				d, err := rt.GetDestination(i)
				simrt.Yield("getdest")
				if err == nil {
					for !d.Online {
						simrt.Sleep(time.Millisecond)
					}
				}
			}
		}
		waitOnline()
		type sent struct {
			name          string
			id            int
			before, after []string // membership when the hand-off started / ended
			pend1, pend2  []string // membership a change in progress at those two moments was about to establish
		}
		var sents []*sent
		var memberMu = &members
		_ = memberMu
		removed := map[string]bool{}
		spare := append([]string(nil), p.Spare...)
		adminBusy := false
		var pending []string // non-nil while a membership change is being applied: what the membership will be afterwards
		nextKey := 0
		sendN := func(n int) {
			for i := 0; i < n; i++ {
				k := rc.Keys[(nextKey*7+i*13)%len(rc.Keys)]
				st := &sent{name: k, id: len(sents), before: append([]string(nil), members...), pend1: pending}
				sents = append(sents, st)
				rt.Dispatch([]byte(fmt.Sprintf("%s %d 946684800", k, st.id)))
				st.after, st.pend2 = append([]string(nil), members...), pending
				simrt.Yield("dispatched")
			}
			nextKey += n
		}
		minimal := func(kind string, before, after []string, node string) bool {
			// only keys that land on the new node (add) / that the removed node owned (remove) may move
			rb, ra := NewRefRing(before), NewRefRing(after)
			for _, k := range rc.Keys {
				ob, oa := before[rb.Owner([]byte(k))], after[ra.Owner([]byte(k))]
				if ob == oa {
					continue
				}
				if kind == "add" && oa != node {
					s.Fail(prop+":excess-movement", "adding %s moved key %q from %s to %s", node, k, ob, oa)
					return false
				}
				if kind == "del" && ob != node {
					s.Fail(prop+":excess-movement", "removing %s moved key %q from %s to %s", node, k, ob, oa)
					return false
				}
			}
			return true
		}
		for _, op := range p.Ops {
			switch op.Kind {
			case "sleep":
				simrt.Sleep(time.Duration(op.N) * time.Millisecond)
			case "send":
				sendN(op.N)
			case "add":
				if len(spare) == 0 {
					continue
				}
				a := spare[0]
				spare = spare[1:]
				startEp(a)
				// the change races with a burst of traffic
				done := false
				adminBusy = true
				before := append([]string(nil), members...)
				s.Spawn("admin-add", "admin", "relay1", func() {
					ds, err := mkHashDests([]string{a})
					if err != nil {
						s.Infra("%v", err)
						return
					}
					pending = append(append([]string(nil), members...), a)
					rt.(interface {
						Add(*destination.Destination)
					}).Add(ds[0])
					members, pending = pending, nil
					simrt.Yield("added")
					done = true
					adminBusy = false
					cond.Broadcast()
				})
				sendN(5 + g.Intn(20))
				cond.Wait(func() bool { return done }, time.Time{})
				if !minimal("add", before, members, a) {
					return
				}
				waitOnline()
			case "move":
				// modDest addr=...: the destination at idx gets a new address (host and instance); from then on the ring is the
				// one of the new set of (host, instance) pairs
				if len(spare) == 0 {
					continue
				}
				a := spare[0]
				spare = spare[1:]
				hostPort := func(x string) string { return strings.Join(strings.Split(x, ":")[:2], ":") }
				clash := false
				for addr := range eps {
					if hostPort(addr) == hostPort(a) {
						clash = true // same host:port with another instance: whether that counts as a new address is not C15's subject
					}
				}
				if clash {
					continue
				}
				startEp(a)
				idx := op.Idx % len(members)
				done := false
				s.Spawn("admin-move", "admin", "relay1", func() {
					nm := append([]string(nil), members...)
					nm[idx] = a
					pending = nm
					if err := rt.UpdateDestination(idx, map[string]string{"addr": a}); err != nil {
						s.Fail(prop+":move-error", "UpdateDestination(%d, addr=%s) returned %v", idx, a, err)
					}
					members, pending = pending, nil
					simrt.Yield("moved")
					done = true
					cond.Broadcast()
				})
				sendN(5 + g.Intn(20))
				cond.Wait(func() bool { return done }, time.Time{})
				waitOnline()
				s.Probe("c15.destination_moved")
			case "del":
				if len(members) <= 2 {
					continue
				}
				idx := op.Idx % len(members)
				a := members[idx]
				done := false
				before := append([]string(nil), members...)
				s.Spawn("admin-del", "admin", "relay1", func() {
					pending = append(append([]string(nil), members[:idx]...), members[idx+1:]...)
					removed[a] = true
					if err := rt.DelDestination(idx); err != nil {
						s.Fail(prop+":del-error", "DelDestination(%d) returned %v", idx, err)
					}
					members, pending = pending, nil
					simrt.Yield("deleted")
					done = true
					cond.Broadcast()
				})
				sendN(5 + g.Intn(20))
				cond.Wait(func() bool { return done }, time.Time{})
				if !minimal("del", before, members, a) {
					return
				}
			}
		}
		_ = adminBusy
		simrt.Sleep(300 * time.Millisecond)
		simrt.Quiesce()
		// every line at exactly one endpoint: the owner under the membership before or after its hand-off
		where := map[int][]string{}
		for addr, ep := range eps {
			for _, ec := range ep.Conns {
				ls, _ := ec.Lines()
				for _, l := range ls {
					f := strings.Fields(string(l))
					var id int
					fmt.Sscanf(f[1], "%d", &id)
					where[id] = append(where[id], addr)
				}
			}
		}
		stable := 0
		for _, st := range sents {
			ob := st.before[NewRefRing(st.before).Owner([]byte(st.name))]
			oa := st.after[NewRefRing(st.after).Owner([]byte(st.name))]
			// a change that was being applied while the line was handed over: the line may have seen the table before or after it
			owners := map[string]bool{ob: true, oa: true}
			cands := [][]string{st.before, st.after}
			for _, pm := range [][]string{st.pend1, st.pend2} {
				if pm != nil {
					cands = append(cands, pm)
				}
			}
			for _, m := range cands {
				oi := NewRefRing(m).Owner([]byte(st.name))
				owners[m[oi]] = true
				// while a destination is being moved, the slot that owns the key may already (or still) talk to its other address:
				// the metric went to the destination the ring chose, which is all C15 asks
				for _, m2 := range cands {
					if len(m2) == len(m) {
						owners[m2[oi]] = true
					}
				}
			}
			got := where[st.id]
			if len(got) > 1 {
				s.Fail(prop+":duplicate", "line %d (%s) reached %d destinations: %v", st.id, st.name, len(got), got)
				return
			}
			if len(got) == 0 {
				gone := false
				for o := range owners {
					if removed[o] {
						gone = true
					}
				}
				if gone {
					continue // handed to a destination that was shut down before it wrote the line
				}
				dropped := func(a string) bool {
					k := fastDestCfg(a).key("hash")
					return counter("dest="+k+".unit=Metric.action=drop.reason=conn_down_no_spool")+counter("dest="+k+".unit=Metric.action=drop.reason=slow_conn") > 0
				}
				anyDropped := false
				for o := range owners {
					if dropped(o) {
						anyDropped = true
					}
				}
				if anyDropped {
					s.Probe("c15.line_dropped_by_connecting_destination")
					continue // counted by a destination whose connection was not up yet
				}
				s.Fail(prop+":not-delivered", "line %d (%s) reached no destination; owner should be %s (members %v)", st.id, st.name, ob, st.before)
				return
			}
			if !owners[got[0]] {
				s.Fail(prop+":wrong-owner", "line %d (%s) went to %s; the ring of %v assigns it to %s (memberships a concurrent change allows: after %v, in progress %v %v; owners %v)", st.id, st.name, got[0], st.before, ob, st.after, st.pend1, st.pend2, owners)
				return
			}
			if ob == oa {
				stable++
			}
		}
		x.Out.Nontrivial = len(sents) >= 20
		x.Out.StateSig = fmt.Sprintf("ring=%d members=%d sent=%d removed=%d", ri, len(members), len(sents), len(removed))
	})
	finishRun(x, s, prop)
}
