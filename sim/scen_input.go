package crsim

// Scenario S5: input framing (C12) over the real listener, TimeoutConn and Plain handler on the
// simulated network; UDP datagrams; AMQP bodies through the connector seam.

import (
	"bytes"
	"encoding/hex"
	"encoding/json"
	"fmt"
	"io/ioutil"
	"os"
	"strings"
	"time"

	"crsim/simnet"
	"crsim/simrt"

	"github.com/grafana/carbon-relay-ng/cfg"
	"github.com/grafana/carbon-relay-ng/input"
	"github.com/streadway/amqp"
)

func init() { Register("C12", scenC12) }

// capDispatcher records what an input handler hands to the table.
type capDispatcher struct {
	Lines   [][]byte
	Invalid int
	// retention check: the argument as seen at call time is compared again at the end; a dispatcher
	// must copy what it wants to keep, so only the copy is stored here
}

func (c *capDispatcher) Dispatch(buf []byte) {
	c.Lines = append(c.Lines, append([]byte(nil), buf...))
}
func (c *capDispatcher) IncNumInvalid() { c.Invalid++ }

// refSplitLines is the framing rule of the statement: newline-delimited, one optional trailing
// carriage return removed, a final unterminated line included.
func refSplitLines(stream []byte) [][]byte {
	var out [][]byte
	for len(stream) > 0 {
		i := bytes.IndexByte(stream, '\n')
		var l []byte
		if i < 0 {
			l, stream = stream, nil
		} else {
			l, stream = stream[:i], stream[i+1:]
		}
		if n := len(l); n > 0 && l[n-1] == '\r' {
			l = l[:n-1]
		}
		out = append(out, l)
	}
	return out
}

type c12Conn struct {
	Kind   string `json:"kind"` // tcp udp amqp
	Stream string `json:"stream_head"`
	Len    int    `json:"len"`
	Cuts   []int  `json:"cuts,omitempty"` // client write sizes
	data   []byte
}

type c12Plan struct {
	Net        simnet.Config `json:"net"`
	TimeoutMs  int           `json:"read_timeout_ms"`
	Conns      []c12Conn     `json:"conns"`
	Exhaustive int           `json:"exhaustive_cut,omitempty"`
	Shared     bool          `json:"tcp_connections_share_one_listener,omitempty"`
}

func genStream(g *simrt.Choices, maxLine int) []byte {
	var b bytes.Buffer
	n := 1 + g.Intn(12)
	for i := 0; i < n; i++ {
		var l string
		switch g.Pick(8) {
		case 0:
			l = ""
		case 1:
			// a long line; when maxLine is the documented limit of the transport, often exactly at or just below it
			n := 1 + g.Intn(maxLine)
			if g.Bool(0.35) {
				n = maxLine - g.Intn(3)
			}
			suffix := fmt.Sprintf(" %d %d", i, 1500000000+i)
			if n > len(suffix) {
				l = strings.Repeat("x", n-len(suffix)) + suffix
			} else {
				l = strings.Repeat("x", n)
			}
			if g.Bool(0.3) && n < maxLine {
				l += "\r" // CRLF-terminated: the carriage return is not part of the line
			}
		case 2:
			l = fmt.Sprintf("a.b%d 1 2\r", i) // CR inside CRLF
		case 3:
			l = fmt.Sprintf("we\rird%d 1 2", i) // CR in the middle stays
		default:
			l = fmt.Sprintf("m%d.%s %d %d", i, nameFrags[g.Pick(len(nameFrags))], g.Intn(100), 1500000000+i)
		}
		b.WriteString(l)
		if i < n-1 || g.Bool(0.7) {
			b.WriteByte('\n')
		}
	}
	return b.Bytes()
}

func scenC12(x *Exec) {
	g := x.Gen
	cfg0 := SwarmConfig(g)
	p := c12Plan{Net: simnet.DefaultConfig()}
	p.Net.SockBuf = []int{65536, 1, 7, 100}[g.Pick(4)]
	p.Net.MaxReadChunk = []int{0, 1, 2, 5, 1000}[g.Pick(5)]
	p.Net.ChunkP = []float64{0.3, 0, 0.9}[g.Pick(3)]
	p.Net.EOFWithData = []float64{0.2, 0, 1}[g.Pick(3)]
	p.Net.TimeoutWithData = []float64{0, 0, 0.05}[g.Pick(3)]
	p.TimeoutMs = []int{120000, 50, 1000}[g.Pick(3)]
	nconn := 1 + g.Intn(4)
	for i := 0; i < nconn; i++ {
		kind := []string{"tcp", "tcp", "tcp", "udp", "amqp"}[g.Pick(5)]
		max := 200
		if g.Bool(0.15) {
			// the supported limits: a TCP line of 65534 bytes still fits bufio.Scanner's 64 KiB token buffer together with
			// its CRLF, an AMQP line of 4096 bytes is the documented maximum there
			max = 65534
		}
		if kind == "amqp" && max > 4096 {
			max = 4096
		}
		if kind == "udp" && max > 60000 {
			max = 60000
		}
		if kind == "udp" && max > 200 && p.Net.SockBuf < 100 {
			max = 200
		}
		c := c12Conn{Kind: kind, data: genStream(g, max)}
		if kind == "udp" && len(c.data) > 65000 {
			c.data = c.data[:65000] // a datagram cannot be larger than this
		}
		c.Len = len(c.data)
		c.Stream = string(c.data)
		if len(c.Stream) > 120 {
			c.Stream = c.Stream[:120]
		}
		if kind == "tcp" {
			rest := len(c.data)
			for rest > 0 {
				n := 1 + g.Intn(rest)
				if g.Bool(0.3) {
					n = 1
				}
				c.Cuts = append(c.Cuts, n)
				rest -= n
			}
		}
		p.Conns = append(p.Conns, c)
	}
	// short single TCP streams: every cut position is tried (one per run, indexed by the plan stream)
	if nconn == 1 && p.Conns[0].Kind == "tcp" && p.Conns[0].Len <= 64 && p.Conns[0].Len > 1 {
		cut := 1 + g.Intn(p.Conns[0].Len-1)
		p.Exhaustive = cut
		p.Conns[0].Cuts = []int{cut, p.Conns[0].Len - cut}
	}
	ntcp := 0
	for _, c := range p.Conns {
		if c.Kind == "tcp" {
			ntcp++
		}
	}
	// as in the relay, all connections of one listener are served by one handler object; the lines of the connections are
	// then told apart by content only (compared as a multiset)
	p.Shared = ntcp >= 2 && g.Bool(0.5)
	x.Out.Sample = p
	cfg0.Horizon = time.Hour
	cfg0.MaxSteps = 4000000 // a 64 KiB line delivered one byte at a time is a few hundred thousand steps
	prop := "C12"

	s := x.Bubble(cfg0, func(s *simrt.Sim) {
		nw := simnet.NewNet(p.Net)
		simnet.Use(nw)
		disp := &capDispatcher{}
		// one dispatcher per transport so that sequences are attributable
		tcpDisp := map[int]*capDispatcher{}
		_ = tcpDisp
		var berr error
		started := false
		cond := simrt.NewCond()
		deliveries := make(chan amqp.Delivery)
		amqpDisp := &capDispatcher{}
		udpDisp := disp
		// TCP connections are told apart by a per-connection listener (one listener per address)
		var tcpDisps []*capDispatcher
		s.Spawn("relay-boot", "relay", "relay1", func() {
			initRelayGlobals()
			sharedDisp := &capDispatcher{}
			if p.Shared {
				l := input.NewListener("0.0.0.0:2100", time.Duration(p.TimeoutMs)*time.Millisecond, input.NewPlain(sharedDisp))
				if err := l.Start(); err != nil {
					berr = err
				}
			}
			for i, c := range p.Conns {
				if c.Kind != "tcp" {
					continue
				}
				d := &capDispatcher{}
				if p.Shared {
					d = sharedDisp
				}
				for len(tcpDisps) <= i {
					tcpDisps = append(tcpDisps, nil)
				}
				tcpDisps[i] = d
				if p.Shared {
					continue
				}
				l := input.NewListener(fmt.Sprintf("0.0.0.0:%d", 2100+i), time.Duration(p.TimeoutMs)*time.Millisecond, input.NewPlain(d))
				if err := l.Start(); err != nil {
					berr = err
				}
			}
			lu := input.NewListener("0.0.0.0:2003", time.Duration(p.TimeoutMs)*time.Millisecond, input.NewPlain(udpDisp))
			if err := lu.Start(); err != nil {
				berr = err
			}
			a := input.NewAMQP(cfg.NewConfig(), amqpDisp, input.VerifAMQPConnector(deliveries))
			if err := a.Start(); err != nil {
				berr = err
			}
			simrt.Yield("boot")
			started = true
			cond.Broadcast()
		})
		cond.Wait(func() bool { return started }, time.Time{})
		if berr != nil {
			s.Infra("%v", berr)
			return
		}
		fin := 0
		type tcpRes struct {
			conn *simnet.TCPConn
		}
		res := make([]tcpRes, len(p.Conns))
		var wantUDP, wantAMQP [][]byte
		for i, c := range p.Conns {
			i, c := i, c
			switch c.Kind {
			case "tcp":
				s.Spawn(fmt.Sprintf("client%d", i), "client", "harness", func() {
					port := 2100 + i
					if p.Shared {
						port = 2100
					}
					ra, _ := simnet.ResolveTCPAddr("tcp", fmt.Sprintf("10.9.9.9:%d", port))
					conn, err := nw.DialTCP(nil, ra)
					if err != nil {
						s.Infra("dial: %v", err)
						return
					}
					res[i].conn = conn
					data := c.data
					for _, n := range c.Cuts {
						if _, err := conn.Write(data[:n]); err != nil {
							break // the relay closed the connection (read timeout): fine
						}
						data = data[n:]
						if g.Bool(0.2) {
							simrt.Sleep(time.Duration(1+g.Intn(p.TimeoutMs*2)) * time.Millisecond / 4)
						}
					}
					conn.Close()
					fin++
					cond.Broadcast()
				})
			case "udp":
				// datagrams are sent one after the other by one sender
				wantUDP = append(wantUDP, refSplitLines(c.data)...)
				s.Spawn(fmt.Sprintf("udp%d", i), "client", "harness", func() {
					if !nw.SendUDP("10.9.9.9:2003", c.data) {
						s.Infra("no udp socket")
					}
					fin++
					cond.Broadcast()
				})
			case "amqp":
				wantAMQP = append(wantAMQP, refSplitLines(c.data)...)
				s.Spawn(fmt.Sprintf("amqp%d", i), "client", "harness", func() {
					deliveries <- amqp.Delivery{Body: c.data}
					simrt.Yield("amqp.sent")
					fin++
					cond.Broadcast()
				})
			}
		}
		cond.Wait(func() bool { return fin == len(p.Conns) }, time.Time{})
		simrt.Sleep(time.Duration(p.TimeoutMs)*time.Millisecond + 200*time.Millisecond)
		simrt.Quiesce()
		cmpSeq := func(what string, got, want [][]byte, ordered bool) bool {
			if !ordered {
				// several datagrams / bodies may be processed in any order relative to each other: compare as multisets
				gs, ws := map[string]int{}, map[string]int{}
				for _, l := range got {
					gs[string(l)]++
				}
				for _, l := range want {
					ws[string(l)]++
				}
				for k, n := range ws {
					if gs[k] != n {
						s.Fail(prop+":framing", "%s: line %s was processed %d times, expected %d", what, Short([]byte(k)), gs[k], n)
						return false
					}
				}
				for k, n := range gs {
					if ws[k] != n {
						s.Fail(prop+":framing", "%s: processed %s (%d times) which is not a line of the input (expected %d)", what, Short([]byte(k)), n, ws[k])
						return false
					}
				}
				return true
			}
			for i := 0; i < len(got) || i < len(want); i++ {
				switch {
				case i >= len(got):
					s.Fail(prop+":framing", "%s: only %d of %d lines were processed; first missing: %s", what, len(got), len(want), Short(want[i]))
					return false
				case i >= len(want):
					s.Fail(prop+":framing", "%s: %d lines were processed but the stream holds %d; extra: %s", what, len(got), len(want), Short(got[i]))
					return false
				case !bytes.Equal(got[i], want[i]):
					s.Fail(prop+":framing", "%s: line #%d was processed as %s, the stream says %s", what, i, Short(got[i]), Short(want[i]))
					return false
				}
			}
			return true
		}
		nlines := 0
		var wantShared [][]byte
		var sharedGot [][]byte
		for i, c := range p.Conns {
			if c.Kind != "tcp" || res[i].conn == nil {
				continue
			}
			// the relay may have stopped reading early (read deadline): the oracle speaks about the bytes it consumed
			consumed := int(res[i].conn.Peer().BytesRead)
			want := refSplitLines(c.data[:consumed])
			if consumed < len(c.data) {
				s.Probe("c12.connection_cut_by_read_timeout")
			}
			nlines += len(want)
			if p.Shared {
				wantShared = append(wantShared, want...)
				sharedGot = tcpDisps[i].Lines
				continue
			}
			if !cmpSeq(fmt.Sprintf("tcp connection %d (%d of %d bytes consumed, writes %v)", i, consumed, len(c.data), c.Cuts), tcpDisps[i].Lines, want, true) {
				return
			}
		}
		if p.Shared {
			s.Probe("c12.shared_listener")
			if !cmpSeq(fmt.Sprintf("%d tcp connections of one listener", ntcp), sharedGot, wantShared, false) {
				return
			}
		}
		if !cmpSeq("udp datagrams", udpDisp.Lines, wantUDP, false) {
			return
		}
		if !cmpSeq("amqp bodies", amqpDisp.Lines, wantAMQP, false) {
			return
		}
		x.Out.Nontrivial = nlines+len(wantUDP)+len(wantAMQP) >= 3
		x.Out.StateSig = fmt.Sprintf("conns=%d tcp_lines=%d udp=%d amqp=%d", len(p.Conns), nlines, len(wantUDP), len(wantAMQP))
		if p.Exhaustive > 0 {
			s.Probe("c12.single_cut_enumerated")
		}
	})
	finishRun(x, s, prop)
}

// ---------------------------------------------------------------- C13: pickle input

type pickleCase struct {
	Proto   int      `json:"proto"`
	Frame   string   `json:"frame"`
	Lines   []string `json:"lines"`
	Invalid int      `json:"invalid"`
	Items   int      `json:"items"`
	raw     []byte
}

type pickleCorpus struct {
	Seed   int          `json:"seed"`
	Python string       `json:"python"`
	Cases  []pickleCase `json:"cases"`
}

var loadedCorpus *pickleCorpus

// loadPickleCorpus reads the CPython-generated corpus that bin/check prepared (CRSIM_PICKLES).
func loadPickleCorpus() (*pickleCorpus, error) {
	if loadedCorpus != nil {
		return loadedCorpus, nil
	}
	path := os.Getenv("CRSIM_PICKLES")
	if path == "" {
		return nil, fmt.Errorf("CRSIM_PICKLES is not set (bin/check generates the corpus with py/gen_pickles.py)")
	}
	b, err := ioutil.ReadFile(path)
	if err != nil {
		return nil, err
	}
	var c pickleCorpus
	if err := json.Unmarshal(b, &c); err != nil {
		return nil, err
	}
	for i := range c.Cases {
		c.Cases[i].raw, err = hex.DecodeString(c.Cases[i].Frame)
		if err != nil {
			return nil, err
		}
	}
	loadedCorpus = &c
	return loadedCorpus, nil
}

type c13Conn struct {
	Cases     []int  `json:"corpus_cases"`
	Malformed string `json:"malformed_tail,omitempty"` // garbage | truncated | badbody
	Cuts      int    `json:"writes"`
}

type c13Plan struct {
	Net   simnet.Config `json:"net"`
	Conns []c13Conn     `json:"conns"`
}

func init() { Register("C13", scenC13) }

func scenC13(x *Exec) {
	corpus, err := loadPickleCorpus()
	if err != nil {
		x.Out.Infra = err.Error()
		return
	}
	g := x.Gen
	cfg0 := SwarmConfig(g)
	p := c13Plan{Net: simnet.DefaultConfig()}
	p.Net.SockBuf = []int{65536, 1, 7, 100, 4096}[g.Pick(5)]
	p.Net.MaxReadChunk = []int{0, 1, 2, 3, 5, 1000}[g.Pick(6)]
	p.Net.ChunkP = []float64{0.3, 0, 0.9}[g.Pick(3)]
	p.Net.EOFWithData = []float64{0.2, 0, 1}[g.Pick(3)]
	nconn := 1 + g.Intn(3)
	type connData struct {
		stream    []byte
		want      []string
		protos    []int // protocol of the frame each expected datapoint comes from
		invalid   int
		cuts      []int
		trailing  []byte // a later, fresh connection to the same listener (after a malformed one)
		wantTail  []string
		invTail   int
		tailProto int
	}
	cds := make([]*connData, nconn)
	for i := 0; i < nconn; i++ {
		cd := &connData{}
		pc := c13Conn{}
		budget := 30000
		if p.Net.SockBuf <= 7 || (p.Net.MaxReadChunk > 0 && p.Net.MaxReadChunk <= 5) {
			budget = 3000
		}
		for k, nk := 0, 1+g.Intn(4); k < nk; k++ {
			ci := g.Intn(len(corpus.Cases))
			c := corpus.Cases[ci]
			if len(cd.stream)+len(c.raw) > budget && k > 0 {
				break
			}
			pc.Cases = append(pc.Cases, ci)
			cd.stream = append(cd.stream, c.raw...)
			cd.want = append(cd.want, c.Lines...)
			for range c.Lines {
				cd.protos = append(cd.protos, c.Proto)
			}
			cd.invalid += c.Invalid
		}
		if g.Bool(0.3) {
			pc.Malformed = []string{"garbage", "truncated", "badbody"}[g.Pick(3)]
			switch pc.Malformed {
			case "garbage":
				cd.stream = append(cd.stream, 0, 0, 0, 5, 'h', 'e', 'l', 'l', 'o', 0, 0, 0, 1)
			case "truncated":
				if g.Bool(0.3) {
					cd.stream = append(cd.stream, 0, 0, 1, 0, 0x80, 2, ']')
				} else {
					// a real frame whose sender dies in the middle of the body
					raw := corpus.Cases[g.Intn(len(corpus.Cases))].raw
					if len(raw) > 6 {
						cd.stream = append(cd.stream, raw[:5+g.Intn(len(raw)-5)]...)
					} else {
						cd.stream = append(cd.stream, 0, 0, 1, 0, 0x80, 2, ']')
					}
				}
			case "badbody":
				cd.stream = append(cd.stream, 0, 0, 0, 6, 0x80, 2, ']', 'q', 0xff, 0xfe)
			}
			ci := g.Intn(len(corpus.Cases))
			cd.trailing = corpus.Cases[ci].raw
			cd.wantTail = corpus.Cases[ci].Lines
			cd.invTail = corpus.Cases[ci].Invalid
			cd.tailProto = corpus.Cases[ci].Proto
		}
		rest := len(cd.stream)
		for rest > 0 {
			n := 1 + g.Intn(rest)
			if g.Bool(0.3) {
				n = 1 + g.Intn(8)
				if n > rest {
					n = rest
				}
			}
			cd.cuts = append(cd.cuts, n)
			rest -= n
		}
		pc.Cuts = len(cd.cuts)
		p.Conns = append(p.Conns, pc)
		cds[i] = cd
	}
	// as in the relay, all connections of the pickle listener are served by one handler object.  Datapoints are then told apart
	// by content only, which needs a run without the two listed og-rek divergences (they are checked position by position)
	shared := nconn >= 2 && g.Bool(0.6)
	for _, cd := range cds {
		all := append(append([]string(nil), cd.want...), cd.wantTail...)
		for k, w := range all {
			proto := cd.tailProto
			if k < len(cd.protos) {
				proto = cd.protos[k]
			}
			f := strings.Fields(w)
			if (proto == 0 && !isASCII(w)) || (proto >= 1 && len(f) == 3 && (strings.HasPrefix(f[1], "-") || strings.HasPrefix(f[2], "-"))) {
				shared = false
			}
		}
	}
	x.Out.Sample = map[string]interface{}{"plan": p, "python": corpus.Python, "connections_share_one_listener": shared}
	cfg0.Horizon = time.Hour
	prop := "C13"

	s := x.Bubble(cfg0, func(s *simrt.Sim) {
		nw := simnet.NewNet(p.Net)
		simnet.Use(nw)
		var berr error
		started := false
		cond := simrt.NewCond()
		disps := make([]*capDispatcher, nconn)
		s.Spawn("relay-boot", "relay", "relay1", func() {
			initRelayGlobals()
			sharedDisp := &capDispatcher{}
			if shared {
				l := input.NewListener("0.0.0.0:2200", 2*time.Minute, input.NewPickle(sharedDisp))
				if err := l.Start(); err != nil {
					berr = err
				}
			}
			for i := range cds {
				disps[i] = &capDispatcher{}
				if shared {
					disps[i] = sharedDisp
					continue
				}
				l := input.NewListener(fmt.Sprintf("0.0.0.0:%d", 2200+i), 2*time.Minute, input.NewPickle(disps[i]))
				if err := l.Start(); err != nil {
					berr = err
				}
			}
			simrt.Yield("boot")
			started = true
			cond.Broadcast()
		})
		cond.Wait(func() bool { return started }, time.Time{})
		if berr != nil {
			s.Infra("%v", berr)
			return
		}
		fin := 0
		for i, cd := range cds {
			i, cd := i, cd
			s.Spawn(fmt.Sprintf("client%d", i), "client", "harness", func() {
				send := func(data []byte, cuts []int) {
					port := 2200 + i
					if shared {
						port = 2200
					}
					ra, _ := simnet.ResolveTCPAddr("tcp", fmt.Sprintf("10.9.9.9:%d", port))
					conn, err := nw.DialTCP(nil, ra)
					if err != nil {
						s.Infra("dial: %v", err)
						return
					}
					for _, n := range cuts {
						if _, err := conn.Write(data[:n]); err != nil {
							break // the relay closed the connection after a malformed frame
						}
						data = data[n:]
					}
					conn.Close()
				}
				send(cd.stream, cd.cuts)
				if cd.trailing != nil {
					simrt.Sleep(50 * time.Millisecond)
					send(cd.trailing, []int{len(cd.trailing)})
				}
				fin++
				cond.Broadcast()
			})
		}
		cond.Wait(func() bool { return fin == nconn }, time.Time{})
		simrt.Sleep(200 * time.Millisecond)
		simrt.Quiesce()
		total := 0
		knownClass, knownMsg := "", ""
		if shared {
			s.Probe("c13.shared_listener")
			ws, gs := map[string]int{}, map[string]int{}
			inv := 0
			for _, cd := range cds {
				for _, w := range append(append([]string(nil), cd.want...), cd.wantTail...) {
					ws[w]++
					total++
				}
				inv += cd.invalid + cd.invTail
			}
			for _, l := range disps[0].Lines {
				gs[string(l)]++
			}
			for w, n := range ws {
				if gs[w] != n {
					s.Fail(prop+":different", "%d connections of one listener: datapoint %q was processed %d times, the frames contain it %d times", nconn, w, gs[w], n)
					return
				}
			}
			for l, n := range gs {
				if ws[l] != n {
					s.Fail(prop+":different", "%d connections of one listener: %s was processed (%d times) but is in no frame (%d)", nconn, Short([]byte(l)), n, ws[l])
					return
				}
			}
			if disps[0].Invalid != inv {
				s.Fail(prop+":invalid-count", "%d connections of one listener: %d items were counted invalid, the frames contain %d structurally invalid items", nconn, disps[0].Invalid, inv)
				return
			}
			x.Out.Nontrivial = total >= 2
			x.Out.StateSig = fmt.Sprintf("conns=%d datapoints=%d shared", nconn, total)
			return
		}
		for i, cd := range cds {
			want := append(append([]string(nil), cd.want...), cd.wantTail...)
			got := disps[i].Lines
			for k := 0; k < len(got) || k < len(want); k++ {
				switch {
				case k >= len(got):
					s.Fail(prop+":missing", "connection %d (%+v): datapoint #%d %q was not processed (%d of %d)", i, p.Conns[i], k, want[k], len(got), len(want))
					return
				case k >= len(want):
					s.Fail(prop+":extra", "connection %d (%+v): unexpected datapoint #%d %s", i, p.Conns[i], k, Short(got[k]))
					return
				case string(got[k]) != want[k]:
					proto := cd.tailProto
					if k < len(cd.protos) {
						proto = cd.protos[k]
					}
					if proto == 0 && !isASCII(want[k]) && isASCII(strings.SplitN(want[k], " ", 2)[1]) {
						// protocol 0 writes non-ASCII text as raw-unicode-escape; see KNOWN_FINDINGS.txt
						if knownClass == "" {
							knownClass, knownMsg = prop+":proto0-nonascii-name", fmt.Sprintf("connection %d: protocol 0 datapoint #%d processed as %s, the plain-text equivalent is %q", i, k, Short(got[k]), want[k])
						}
						continue
					}
					if f := strings.Fields(want[k]); proto >= 1 && len(f) == 3 && strings.HasPrefix(f[1], "-") && !strings.ContainsAny(f[1], ".e") {
						// BININT is a signed 4-byte integer; see KNOWN_FINDINGS.txt
						if knownClass == "" {
							knownClass, knownMsg = prop+":negative-binint", fmt.Sprintf("connection %d: protocol %d datapoint #%d processed as %s, the plain-text equivalent is %q", i, proto, k, Short(got[k]), want[k])
						}
						continue
					}
					s.Fail(prop+":different", "connection %d (%+v): datapoint #%d processed as %s, the plain-text equivalent is %q", i, p.Conns[i], k, Short(got[k]), want[k])
					return
				}
			}
			if disps[i].Invalid != cd.invalid+cd.invTail {
				s.Fail(prop+":invalid-count", "connection %d (%+v): %d items were counted invalid, the frames contain %d structurally invalid items", i, p.Conns[i], disps[i].Invalid, cd.invalid+cd.invTail)
				return
			}
			total += len(want)
			if cd.trailing != nil {
				s.Probe("c13.malformed_frame_then_fresh_connection")
			}
		}
		if knownClass != "" {
			// nothing else is wrong in this run: report the (listed) divergence itself
			s.Fail(knownClass, "%s", knownMsg)
			return
		}
		x.Out.Nontrivial = total >= 2
		x.Out.StateSig = fmt.Sprintf("conns=%d datapoints=%d", nconn, total)
	})
	finishRun(x, s, prop)
}

func isASCII(s string) bool {
	for i := 0; i < len(s); i++ {
		if s[i] >= 0x80 {
			return false
		}
	}
	return true
}
