package crsim

// Kafka (kafkaMdm) route under simulation: route/kafkamdm.go runs against crsim/simsarama, a scripted cluster (DESIGN.md 3.6b).
// Used by C16 (the record built for Kafka), C14 (admin commands and TOML that build kafkaMdm routes) and C20.

import (
	"fmt"
	"sort"
	"strconv"
	"strings"
	"time"

	"crsim/simrt"
	"crsim/simsarama"

	"github.com/grafana/carbon-relay-ng/matcher"
	"github.com/grafana/carbon-relay-ng/route"
	"github.com/grafana/metrictank/schema"
)

type kafkaCluster struct {
	s            *simrt.Sim
	ConnectFails int      // the first n connection attempts find no broker
	Script       []string // outcome per SendMessages call, in order; afterwards "ok"
	NumPart      int
	Topic        string

	Connects   int
	Sends      int
	Failed     int
	Stored     []*schema.MetricData
	StoredPart []int32
	Corrupt    string
	ClosedWhat []string
}

func (k *kafkaCluster) Connect(addrs []string, conf *simsarama.Config) error {
	k.Connects++
	if k.Connects <= k.ConnectFails {
		k.s.Probe("kafka.out_of_brokers")
		return simsarama.ErrOutOfBrokers
	}
	return nil
}

func (k *kafkaCluster) Partitions(topic string) ([]int32, error) {
	var ps []int32
	for i := 0; i < k.NumPart; i++ {
		ps = append(ps, int32(i))
	}
	return ps, nil
}

func (k *kafkaCluster) store(m *simsarama.ProducerMessage) {
	if m.Topic != k.Topic && k.Corrupt == "" {
		k.Corrupt = fmt.Sprintf("message for topic %q, configured topic is %q", m.Topic, k.Topic)
	}
	if (m.Partition < 0 || int(m.Partition) >= k.NumPart) && k.Corrupt == "" {
		k.Corrupt = fmt.Sprintf("message for partition %d of %d", m.Partition, k.NumPart)
	}
	raw, err := m.Value.Encode()
	if err != nil {
		if k.Corrupt == "" {
			k.Corrupt = "value encoder: " + err.Error()
		}
		return
	}
	md := &schema.MetricData{}
	rest, err := md.UnmarshalMsg(raw)
	if err != nil || len(rest) != 0 {
		if k.Corrupt == "" {
			k.Corrupt = fmt.Sprintf("message value does not decode as one msgp MetricData: %v (%d trailing bytes)", err, len(rest))
		}
		return
	}
	k.Stored = append(k.Stored, md)
	k.StoredPart = append(k.StoredPart, m.Partition)
}

func (k *kafkaCluster) Send(msgs []*simsarama.ProducerMessage) error {
	out := "ok"
	if k.Sends < len(k.Script) {
		out = k.Script[k.Sends]
	}
	k.Sends++
	k.s.Probe("kafka.send." + out)
	switch out {
	case "slow":
		simsarama.Sleep(300 * time.Millisecond)
	case "fail-all":
		k.Failed++
		var errs simsarama.ProducerErrors
		for _, m := range msgs {
			errs = append(errs, &simsarama.ProducerError{Msg: m, Err: simsarama.ErrNotLeaderForPartition})
		}
		if len(errs) > 0 {
			return errs
		}
	case "fail-some":
		var errs simsarama.ProducerErrors
		for i, m := range msgs {
			if i%2 == 1 {
				errs = append(errs, &simsarama.ProducerError{Msg: m, Err: simsarama.ErrRequestTimedOut})
			} else {
				k.store(m)
			}
		}
		if len(errs) > 0 {
			k.Failed++
			return errs
		}
		return nil
	}
	for _, m := range msgs {
		k.store(m)
	}
	return nil
}

func (k *kafkaCluster) Closed(what string) { k.ClosedWhat = append(k.ClosedWhat, what) }

// c16Expect is the record the property promises for a line, from the line's own tokens and the reference rule selection.
func c16Expect(l string, rules []schemaRule, orgID int) (want schema.MetricData, series string, representable bool) {
	f := strings.Fields(l)
	val, errV := strconv.ParseFloat(f[1], 64)
	tsv, errT := strconv.ParseUint(f[2], 10, 64)
	parts := strings.Split(f[0], ";")
	name, tags := parts[0], append([]string(nil), parts[1:]...)
	sort.Strings(tags)
	series = name
	if len(tags) > 0 {
		series += ";" + strings.Join(tags, ";")
	}
	want = schema.MetricData{Name: name, Tags: tags, Value: val, Time: int64(tsv), OrgId: orgID, Interval: refSchemaInterval(rules, series), Unit: "unknown", Mtype: "gauge"}
	representable = errV == nil && errT == nil && tsv <= 4294967295 && want.Validate() == nil
	return
}

func sameRecord(g0 *schema.MetricData, want *schema.MetricData) bool {
	return g0.Name == want.Name && strings.Join(g0.Tags, ";") == strings.Join(want.Tags, ";") && g0.Time == want.Time && g0.OrgId == want.OrgId &&
		(g0.Value == want.Value || (g0.Value != g0.Value && want.Value != want.Value))
}

type c16Kafka struct {
	PartitionBy  string   `json:"partitionBy"`
	Codec        string   `json:"codec"`
	NumPart      int      `json:"partitions"`
	ConnectFails int      `json:"connect_failures"`
	Script       []string `json:"send_outcomes"`
	FlushMaxNum  int      `json:"flushMaxNum"`
	FlushMaxWait int      `json:"flushMaxWait_ms"`
	Blocking     bool     `json:"blocking"`
	Shutdown     bool     `json:"shutdown_at_end"`
}

func genC16Kafka(g *simrt.Choices) *c16Kafka {
	k := &c16Kafka{
		PartitionBy:  []string{"byOrg", "bySeries", "bySeriesWithTags", "bySeriesWithTagsFnv"}[g.Pick(4)],
		Codec:        []string{"none", "gzip", "snappy"}[g.Pick(3)],
		NumPart:      []int{1, 3, 8, 128}[g.Pick(4)],
		FlushMaxNum:  []int{7, 1, 2, 10000, 50}[g.Pick(5)],
		FlushMaxWait: []int{50, 1, 500, 3000}[g.Pick(4)],
		Blocking:     g.Bool(0.3),
		Shutdown:     g.Bool(0.5),
	}
	if g.Bool(0.3) {
		k.ConnectFails = 1 + g.Intn(4)
	}
	if g.Bool(0.5) {
		n := 1 + g.Intn(6)
		for i := 0; i < n; i++ {
			k.Script = append(k.Script, []string{"ok", "fail-all", "fail-some", "slow"}[g.Pick(4)])
		}
	}
	return k
}

func runC16Kafka(x *Exec, cfg simrt.Config, p *c16Plan, lines []string, sf, schemasText string) {
	prop := "C16"
	kp := p.Kafka
	s := x.Bubble(cfg, func(s *simrt.Sim) {
		cl := &kafkaCluster{s: s, ConnectFails: kp.ConnectFails, Script: kp.Script, NumPart: kp.NumPart, Topic: "mdm"}
		simsarama.Use(cl)
		var rt route.Route
		var berr error
		started := false
		cond := simrt.NewCond()
		s.Spawn("relay-boot", "relay", "relay1", func() {
			initRelayGlobals()
			rt, berr = route.NewKafkaMdm("kafka", matcher.Matcher{}, "mdm", kp.Codec, sf, kp.PartitionBy, []string{"kafka.sim:9092"}, 10000, p.OrgID, kp.FlushMaxNum, kp.FlushMaxWait, 2000, kp.Blocking,
				false, false, "", "", false, "", "", "")
			simrt.Yield("boot")
			started = true
			cond.Broadcast()
		})
		cond.Wait(func() bool { return started }, time.Time{})
		if berr != nil {
			s.Infra("%v\n%s", berr, schemasText)
			return
		}
		for _, l := range lines {
			rt.Dispatch([]byte(l))
			simrt.Yield("dispatched")
		}
		if kp.Shutdown {
			// Shutdown closes the buffer; the worker drains it, flushes what it holds and ends
			done := false
			s.Spawn("shutdown", "relay", "relay1", func() {
				rt.Shutdown()
				simrt.Yield("shutdown.returned")
				done = true
				cond.Broadcast()
			})
			if !cond.Wait(func() bool { return done }, time.Now().Add(time.Minute)) {
				s.Fail(prop+":kafka-shutdown-hang", "Shutdown of the kafkaMdm route did not return within a simulated minute")
				return
			}
		}
		// time for the connection attempts (1 s apart), the flush ticker and the retries (100 ms apart)
		simrt.Sleep(time.Duration(kp.ConnectFails+1)*time.Second + time.Duration(kp.FlushMaxWait)*time.Millisecond*2 + time.Duration(len(kp.Script)+2)*500*time.Millisecond)
		simrt.Quiesce()
		if cl.Corrupt != "" {
			s.Fail(prop+":corrupt-body", "kafka: %s", cl.Corrupt)
			return
		}
		var wants []schema.MetricData
		var wantLines []string
		var wantSeries []string
		for _, l := range lines {
			w, series, ok := c16Expect(l, p.Rules, p.OrgID)
			if !ok {
				continue
			}
			wants = append(wants, w)
			wantLines = append(wantLines, l)
			wantSeries = append(wantSeries, series)
		}
		got := cl.Stored
		if cl.Failed == 0 {
			// no failed request: exactly the representable lines, in order
			n := len(got)
			if len(wants) < n {
				n = len(wants)
			}
			for i := 0; i < n; i++ {
				if !sameRecord(got[i], &wants[i]) {
					s.Fail(prop+":record-differs", "kafka: line %q became {name:%q tags:%v value:%v time:%d org:%d}, expected {name:%q tags:%v value:%v time:%d org:%d}", wantLines[i], got[i].Name, got[i].Tags, got[i].Value, got[i].Time, got[i].OrgId,
						wants[i].Name, wants[i].Tags, wants[i].Value, wants[i].Time, wants[i].OrgId)
					return
				}
			}
			if len(got) < len(wants) {
				s.Fail(prop+":missing-record", "kafka: no message was produced for line %q (%d messages for %d representable lines)", wantLines[len(got)], len(got), len(wants))
				return
			}
			if len(got) > len(wants) {
				s.Fail(prop+":extra-record", "kafka: %d messages were produced, %d lines are representable; extra: %+v", len(got), len(wants), *got[len(wants)])
				return
			}
		}
		// with or without failures: every stored message is the record of some line (a retried batch may repeat records, it may
		// not alter them), and every representable line is stored at least once
		seen := make([]bool, len(wants))
		for _, g0 := range got {
			hit := -1
			for i := range wants {
				if sameRecord(g0, &wants[i]) {
					seen[i] = true
					if hit < 0 {
						hit = i
					}
				}
			}
			if hit < 0 {
				s.Fail(prop+":record-differs", "kafka: a message {name:%q tags:%v value:%v time:%d org:%d interval:%d} was produced that is the record of none of the lines", g0.Name, g0.Tags, g0.Value, g0.Time, g0.OrgId, g0.Interval)
				return
			}
			if g0.Interval != wants[hit].Interval {
				s.Fail(prop+":interval", "kafka: series %q got interval %d; the first storage-schemas rule (priority, then file order) matching it gives %d\n%s", wantSeries[hit], g0.Interval, wants[hit].Interval, schemasText)
				return
			}
			// the id is a digest of the final fields: it must have been computed after they were all set
			w := wants[hit]
			w.Value, w.Time = g0.Value, g0.Time
			w.SetId()
			if g0.Id != w.Id {
				s.Fail(prop+":record-differs", "kafka: message for line %q carries id %q, the id of its fields is %q", wantLines[hit], g0.Id, w.Id)
				return
			}
		}
		for i := range wants {
			if !seen[i] {
				s.Fail(prop+":missing-record", "kafka: no message was stored for line %q (%d messages stored, %d of %d requests failed)", wantLines[i], len(got), cl.Failed, cl.Sends)
				return
			}
		}
		if kp.Shutdown {
			hasClient := false
			for _, w := range cl.ClosedWhat {
				if w == "client" {
					hasClient = true
				}
			}
			if hasClient {
				s.Probe("kafka.client_closed_after_shutdown")
			}
		}
		x.Out.Nontrivial = len(wants) >= 3 && len(p.Rules) > 1
		x.Out.StateSig = fmt.Sprintf("kafka records=%d stored=%d rules=%d failed=%d connects=%d", len(wants), len(got), len(p.Rules), cl.Failed, cl.Connects)
	})
	finishRun(x, s, prop)
}
