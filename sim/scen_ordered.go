package crsim

// C19: order validation is a linearizable max-register per (canonical) metric name.

import (
	"fmt"
	"sort"
	"strconv"
	"strings"
	"time"

	"crsim/simnet"
	"crsim/simrt"

	"github.com/anishathalye/porcupine"
	"github.com/grafana/carbon-relay-ng/validate"
)

func init() { Register("C19", scenC19) }

type c19Op struct {
	Name string `json:"name"`
	TS   uint32 `json:"ts"`
}

type c19Plan struct {
	Clients     [][]c19Op `json:"clients"`
	Aggregation bool      `json:"aggregation_matching_everything"`

	Churn        []string `json:"unrelated_entries_added_and_removed,omitempty"`
	ChurnAfterUs int      `json:"churn_after_us,omitempty"`
	ChurnSeries  int      `json:"other_series_accepted_in_between,omitempty"`
}

type c19In struct {
	canon string
	ts    uint32
}

var c19Model = porcupine.Model{
	Partition: func(history []porcupine.Operation) [][]porcupine.Operation {
		m := map[string][]porcupine.Operation{}
		for _, op := range history {
			k := op.Input.(c19In).canon
			m[k] = append(m[k], op)
		}
		var keys []string
		for k := range m {
			keys = append(keys, k)
		}
		sort.Strings(keys)
		var out [][]porcupine.Operation
		for _, k := range keys {
			out = append(out, m[k])
		}
		return out
	},
	Init: func() interface{} { return uint32(0) },
	Step: func(state, input, output interface{}) (bool, interface{}) {
		st := state.(uint32)
		in := input.(c19In)
		accepted := output.(bool)
		if accepted {
			return in.ts > st, in.ts
		}
		return in.ts <= st, st
	},
	Equal: func(a, b interface{}) bool { return a.(uint32) == b.(uint32) },
	DescribeOperation: func(input, output interface{}) string {
		return fmt.Sprintf("%s@%d -> %v", input.(c19In).canon, input.(c19In).ts, output)
	},
}

// pairs of distinct names that collide under the 32-bit hashes a "cheaper key" would plausibly use (FNV-1a 32, FNV-1 32, CRC-32,
// either half of FNV-1a 64): the property is per metric name, so two such series must never share their newest timestamp
var c19Colliding = [][2]string{
	{"hc.53be5037", "hc.23f07f15"}, {"hc.8b22318d", "hc.913f4dc6"}, // fnv1a-32
	{"hc.n88448", "hc.n104090"},                                    // fnv1-32
	{"hc.1fdc0ee9", "hc.5fb19e8e"}, {"hc.78a20e07", "hc.b853f23b"}, // crc32 (IEEE)
	{"hc.094366ea", "hc.7fd29ee0"}, {"hc.n54540", "hc.n330682"}, // low and high half of fnv1a-64
}

func scenC19(x *Exec) {
	g := x.Gen
	cfg := SwarmConfig(g)
	// order validation is about interleavings inside Dispatch: favour preemptive policies
	if cfg.PreemptP < 0.2 && g.Bool(0.7) {
		cfg.PreemptP = []float64{0.2, 0.6}[g.Pick(2)]
		cfg.MaxBudget = []int{3, 10, 40}[g.Pick(3)]
		cfg.SwitchP = 0.5
	}
	bases := []string{"m.a", "m.b", "srv.cpu", "x"}
	nn := 1 + g.Intn(3)
	var names []string
	for i := 0; i < nn; i++ {
		b := bases[i]
		names = append(names, b)
		if g.Bool(0.6) {
			names = append(names, "."+b) // Graphite (and the validator) treat a leading dot as insignificant
		}
	}
	if g.Bool(0.25) {
		pair := c19Colliding[g.Pick(len(c19Colliding))]
		names = []string{pair[0], pair[1]}
	}
	withAgg := g.Bool(0.5)
	nclients := 2 + g.Intn(3)
	p := c19Plan{Aggregation: withAgg}
	tsBase := uint32(1000)
	for c := 0; c < nclients; c++ {
		var ops []c19Op
		n := 3 + g.Intn(12)
		cur := tsBase + uint32(g.Intn(4))
		for i := 0; i < n; i++ {
			switch g.Pick(5) {
			case 0:
				// equal
			case 1:
				if cur > tsBase {
					cur -= uint32(1 + g.Intn(2))
				}
			default:
				cur += uint32(g.Intn(3))
			}
			ops = append(ops, c19Op{Name: names[g.Pick(len(names))], TS: cur})
		}
		p.Clients = append(p.Clients, ops)
	}
	if g.Bool(0.4) {
		// meanwhile an administrator adds and removes entries that match none of these series
		for i, n := 0, 1+g.Intn(3); i < n; i++ {
			p.Churn = append(p.Churn, churnKinds[g.Pick(len(churnKinds))])
		}
		p.ChurnAfterUs = g.Intn(200)
	}
	if g.Bool(0.012) {
		// series churn: between two points of one series, several hundred thousand other series are accepted (a relay in front of
		// an autoscaling fleet sees that within hours); the newest accepted timestamp of the idle series must not be forgotten
		p.ChurnSeries = []int{300000, 600000, 1100000}[g.Pick(3)]
		cfg.PreemptP, cfg.SwitchP, cfg.TimeRaceP = 0, 0, 0
		cfg.MaxSteps *= 4
		cfg.MaxReal = 3 * time.Minute
	}
	x.Out.Sample = p
	cfg.Horizon = 10 * time.Minute
	prop := "C19"
	tp := &TablePlan{Legacy: "medium", M20: "medium", Order: true, Routes: []RouteSpec{{Type: "capture", Key: "cap"}}}
	if withAgg {
		// "forwarded nowhere" includes aggregations: this one takes in every forwarded point, and nothing else
		tp.Aggs = []AggSpec{{Fun: "count", F: FilterSpec{Regex: "."}, OutFmt: "c19agg.all", Cache: g.Bool(0.5), Interval: 10, Wait: 20}}
	}

	s := x.Bubble(cfg, func(s *simrt.Sim) {
		nw := simnet.NewNet(simnet.DefaultConfig())
		simnet.Use(nw)
		var bt *builtTable
		var berr error
		started := false
		cond := simrt.NewCond()
		s.Spawn("relay-boot", "relay", "relay1", func() {
			initRelayGlobals()
			bt, berr = buildTable(s, nw, tp)
			simrt.Yield("boot")
			started = true
			cond.Broadcast()
		})
		cond.Wait(func() bool { return started }, time.Time{})
		if berr != nil {
			s.Infra("%v", berr)
			return
		}
		type rec struct {
			client, seq  int
			in           c19In
			line         string
			call, ret    int64
			rawName      string
			acceptedSeen bool
		}
		var history []*rec
		var clock int64
		fin := 0
		for c := range p.Clients {
			c := c
			s.Spawn(fmt.Sprintf("client%d", c), "client", "harness", func() {
				for i, op := range p.Clients[c] {
					// the value makes every line unique so that deliveries are attributable
					line := fmt.Sprintf("%s %d %d", op.Name, c*1000+i, op.TS)
					r := &rec{client: c, seq: i, in: c19In{strings.TrimPrefix(op.Name, "."), op.TS}, line: line, rawName: op.Name}
					clock++
					r.call = clock
					history = append(history, r)
					bt.T.Dispatch([]byte(line))
					simrt.Yield("dispatched")
					clock++
					r.ret = clock
				}
				fin++
				cond.Broadcast()
			})
		}
		churnDone := len(p.Churn) == 0
		if !churnDone {
			s.Spawn("churn-admin", "admin", "relay1", func() {
				simrt.Sleep(time.Duration(p.ChurnAfterUs) * time.Microsecond)
				if err := unrelatedChurn(bt.T, p.Churn); err != nil {
					s.Probe("churn.removal_failed: " + err.Error())
					s.Logf("churn: %v", err)
				}
				s.Probe("c19.unrelated_entries_added_and_removed")
				churnDone = true
				cond.Broadcast()
			})
		}
		cond.Wait(func() bool { return fin == len(p.Clients) && churnDone }, time.Time{})
		simrt.Sleep(10 * time.Millisecond)
		simrt.Quiesce()
		delivered := map[string]int{}
		for _, call := range bt.Caps[0].Calls {
			delivered[string(call.copy)]++
		}
		var ops []porcupine.Operation
		rejected := 0
		lastRejByName := map[string]bool{}
		for _, r := range history {
			n := delivered[r.line]
			if n > 1 {
				s.Fail(prop+":duplicate", "line %q was forwarded %d times", r.line, n)
				return
			}
			acc := n == 1
			if !acc {
				rejected++
				lastRejByName[r.in.canon] = true
			}
			ops = append(ops, porcupine.Operation{ClientId: r.client, Input: r.in, Call: r.call, Output: acc, Return: r.ret})
		}
		res, info := porcupine.CheckOperationsVerbose(c19Model, ops, 20*time.Second)
		_ = info
		if res == porcupine.Illegal {
			var b strings.Builder
			for _, r := range history {
				fmt.Fprintf(&b, "  client%d [%d,%d] %s@%d -> accepted=%v\n", r.client, r.call, r.ret, r.rawName, r.in.ts, delivered[r.line] == 1)
			}
			s.Fail(prop+":not-linearizable", "the accept/reject history is not a linearizable max-register per name:\n%s", b.String())
			return
		}
		if res == porcupine.Unknown {
			s.Probe("c19.porcupine_timeout")
		}
		if c := counter("unit=Err.type=out_of_order"); c != int64(rejected) {
			s.Fail(prop+":counter", "out_of_order counts %d but %d points were not forwarded", c, rejected)
			return
		}
		if withAgg {
			if got := counter("unit=Metric.direction=in.aggregator=" + bt.Aggs[0].Key); got != int64(len(history)-rejected) {
				s.Fail(prop+":aggregated", "the aggregation took in %d points but %d were accepted (%d rejected as out of order must be forwarded nowhere)", got, len(history)-rejected, rejected)
				return
			}
			s.Probe("c19.with_aggregation")
		}
		recs := bt.T.Bad().Get(24 * time.Hour)
		simrt.Yield("bad.get")
		reported := map[string]bool{}
		for _, r := range recs {
			reported[r.Metric] = true
			if !strings.Contains(r.LastErr, "not newer") {
				s.Fail(prop+":report", "bad-metrics record for %q carries reason %q", r.Metric, r.LastErr)
				return
			}
		}
		for n := range lastRejByName {
			if !reported[n] {
				s.Fail(prop+":report", "rejected series %q is missing from the bad-metrics report (has %v)", n, reported)
				return
			}
		}
		if p.ChurnSeries > 0 {
			newest := map[string]uint32{}
			for _, r := range history {
				if delivered[r.line] == 1 && r.in.ts > newest[r.in.canon] {
					newest[r.in.canon] = r.in.ts
				}
			}
			buf := make([]byte, 0, 32)
			for i := 0; i < p.ChurnSeries; i++ {
				buf = append(buf[:0], "churn.fleet."...)
				buf = strconv.AppendInt(buf, int64(i), 36)
				if err := validate.Ordered(buf, 2000); err != nil {
					s.Fail(prop+":not-linearizable", "the first point of the new series %q was rejected: %v", buf, err)
					return
				}
				if i%512 == 0 {
					simrt.Yield("churning")
				}
			}
			simrt.Yield("churned")
			before := len(bt.Caps[0].Calls)
			var names2 []string
			for name := range newest {
				names2 = append(names2, name)
			}
			sort.Strings(names2)
			for _, name := range names2 {
				ts := newest[name]
				line := fmt.Sprintf("%s 424242 %d", name, ts)
				bt.T.Dispatch([]byte(line))
				simrt.Yield("dispatched")
			}
			simrt.Sleep(10 * time.Millisecond)
			simrt.Quiesce()
			if got := len(bt.Caps[0].Calls); got != before {
				s.Fail(prop+":forgotten-after-churn", "after %d other series had been accepted, a point of %q with the timestamp of its newest accepted point was forwarded again: %q", p.ChurnSeries, names2, string(bt.Caps[0].Calls[before].copy))
				return
			}
			s.Probe("c19.series_churn")
		}
		x.Out.Nontrivial = rejected > 0 && rejected < len(history)
		x.Out.StateSig = fmt.Sprintf("ops=%d rejected=%d names=%d clients=%d", len(history), rejected, len(names), len(p.Clients))
	})
	finishRun(x, s, prop)
}
