package crsim

// Scenario S6: nothing received from the network or the admin port can crash the relay (C14).

import (
	"fmt"
	"os"
	"strings"
	"time"

	"crsim/simhttp"
	"crsim/simnet"
	"crsim/simrt"
	"crsim/simsarama"

	"github.com/grafana/carbon-relay-ng/cfg"
	"github.com/grafana/carbon-relay-ng/input"
	"github.com/grafana/carbon-relay-ng/table"
	basetelnet "github.com/grafana/carbon-relay-ng/telnet"
	"github.com/grafana/carbon-relay-ng/ui/telnet"
	"github.com/streadway/amqp"
)

func init() {
	Register("C14", scenC14)
	resetHooks = append(resetHooks, basetelnet.VerifReset)
}

type c14Plan struct {
	TOML     string   `json:"toml,omitempty"`
	Cmds     []string `json:"admin_commands"`
	Direct   []string `json:"direct_table_ops"`
	Garbage  []string `json:"garbage_kinds"`
	Traffic  int      `json:"traffic_lines"`
	Flap     bool     `json:"endpoints_come_and_go"`
	AdvanceS int      `json:"advance_s"`

	KafkaConnectFails int      `json:"kafka_connect_failures,omitempty"`
	KafkaScript       []string `json:"kafka_send_outcomes,omitempty"`
}

var c14Ints = []string{"0", "1", "2", "10", "1000", "100000", "1", "5", "50", "3", "99999999999999999999", "-1", "007", "1.5", "x", ""}
var c14Regex = []string{`^stats\.(.*)`, `^a\.(b)\.(.*)`, `.*`, `^stats\.timers\.(app|proxy)[0-9]+\.requests\.(.*)`, `^a\.`, `b`, `(`, `[`, `^$`, `\`, `a{1,2}{3}`, `(?P<n>a)`, ``}
var c14Names = []string{"stats.timers.app1.requests.x", "a.b.c", "a.b.d", "stats.gauges.y", "collectd.localhost.cpu", "foo.bar", "x"}

// c14Int is mostly a syntactically valid number (boundary values included), sometimes not a number at all.
func c14Int(g *simrt.Choices) string {
	if g.Bool(0.85) {
		return []string{"0", "1", "2", "5", "10", "100", "1000", "100000", "3", "50"}[g.Pick(10)]
	}
	return c14Ints[g.Pick(len(c14Ints))]
}

func c14Dest(g *simrt.Choices, i int) string {
	addr := []string{"10.5.0.%d:2003", "10.5.0.%d:2003:inst%d", "10.5.0.%d", "badhost%d", ":2003", "10.5.0.%d:notaport", "10.5.0.%d:99999"}[g.Pick(7)]
	if strings.Count(addr, "%d") == 2 {
		addr = fmt.Sprintf(addr, i+1, i)
	} else if strings.Contains(addr, "%d") {
		addr = fmt.Sprintf(addr, i+1)
	}
	if g.Bool(0.8) {
		addr = fmt.Sprintf("10.5.0.%d:2003", 1+i%4)
		if g.Bool(0.3) {
			addr += fmt.Sprintf(":i%d", i)
		}
	}
	var opts []string
	keys := []string{"flush", "reconn", "connbuf", "iobuf", "spoolbuf", "spoolmaxbytesperfile", "spoolsyncevery", "spoolsyncperiod", "spoolsleep", "unspoolsleep"}
	for _, k := range keys {
		if g.Bool(0.15) {
			opts = append(opts, k+"="+c14Int(g))
		}
	}
	if g.Bool(0.3) {
		opts = append(opts, "spool="+[]string{"true", "false", "true", "maybe"}[g.Pick(4)])
	}
	if g.Bool(0.3) {
		opts = append(opts, "pickle="+[]string{"true", "false", "true", "1"}[g.Pick(4)])
	}
	if g.Bool(0.2) {
		opts = append(opts, []string{"prefix=a.", "sub=b", "regex=" + c14Regex[g.Pick(6)], "notRegex=" + c14Regex[g.Pick(len(c14Regex))], "notSub=zz", "unknown=1", "prefix="}[g.Pick(7)])
	}
	return strings.TrimSpace(addr + " " + strings.Join(opts, " "))
}

// c14CleanDest is a destination spec every option of which is valid, so that commands built from it are accepted and the
// relay then has to live with the settings (small buffers, short periods, spooling, pickle) under traffic and garbage.
func c14CleanDest(g *simrt.Choices, i int) string {
	addr := fmt.Sprintf("10.5.0.%d:2003", 1+i%4)
	if g.Bool(0.3) {
		addr += fmt.Sprintf(":i%d", i)
	}
	var opts []string
	pos := []string{"1", "2", "5", "10", "100", "1000", "3", "50"}
	for _, k := range []string{"flush", "reconn", "connbuf", "iobuf", "spoolbuf", "spoolsyncevery", "spoolsyncperiod", "spoolsleep", "unspoolsleep"} {
		if g.Bool(0.2) {
			opts = append(opts, k+"="+pos[g.Pick(len(pos))])
		}
	}
	if g.Bool(0.2) {
		opts = append(opts, "spoolmaxbytesperfile="+[]string{"100", "1000", "100000"}[g.Pick(3)])
	}
	if g.Bool(0.3) {
		opts = append(opts, "spool="+[]string{"true", "false"}[g.Pick(2)])
	}
	if g.Bool(0.3) {
		opts = append(opts, "pickle="+[]string{"true", "false"}[g.Pick(2)])
	}
	if g.Bool(0.2) {
		opts = append(opts, []string{"prefix=a.", "sub=b", "regex=" + c14Regex[g.Pick(6)], "notRegex=" + c14Regex[g.Pick(6)], "notSub=zz"}[g.Pick(5)])
	}
	return strings.TrimSpace(addr + " " + strings.Join(opts, " "))
}

// c14Good remembers the routes created by well-formed commands (key -> number of destinations) so that later mod/del
// commands mostly hit something that exists.
type c14Good struct {
	keys []string
	nd   map[string]int
}

func (c *c14Good) pick(g *simrt.Choices, all []string) string {
	if len(c.keys) > 0 && g.Bool(0.7) {
		return c.keys[g.Pick(len(c.keys))]
	}
	if len(all) > 0 {
		return all[g.Pick(len(all))]
	}
	return "nokey"
}

func c14Cmd(g *simrt.Choices, routeKeys *[]string, good *c14Good) string {
	clean := g.Bool(0.5)
	switch g.Pick(14) {
	case 0:
		return fmt.Sprintf("addBlack %s %s", []string{"prefix", "sub", "regex", "notRegex", "notPrefix", "notSub", "bogus", ""}[g.Pick(8)], []string{"collectd.localhost", c14Regex[g.Pick(len(c14Regex))], ""}[g.Pick(3)])
	case 1:
		return fmt.Sprintf("addRewriter %s %s %s", []string{"a", "/a(.)/", "/(/", "", "//"}[g.Pick(5)], []string{"b", "${1}x", "$1", ""}[g.Pick(4)], c14Ints[g.Pick(len(c14Ints))])
	case 2, 3:
		if clean {
			fun := []string{"sum", "avg", "count", "max", "min", "last", "delta", "derive", "stdev", "percentiles"}[g.Pick(10)]
			match := []string{"regex=" + c14Regex[g.Pick(6)], c14Regex[g.Pick(6)], "prefix=stats. regex=" + c14Regex[g.Pick(6)], "notRegex=" + c14Regex[g.Pick(6)] + " regex=^stats", "sub=requests regex=" + c14Regex[g.Pick(6)]}[g.Pick(5)]
			tail := []string{"", " cache=true", " cache=false dropRaw=true", " dropRaw=false", " dropRaw=true", " cache=true dropRaw=true"}[g.Pick(6)]
			pos := []string{"1", "2", "5", "10", "60"}
			return fmt.Sprintf("addAgg %s %s %s %s %s%s", fun, match, []string{"agg.$1", "agg", "agg.${1}.x"}[g.Pick(3)], pos[g.Pick(5)], pos[g.Pick(5)], tail)
		}
		fun := []string{"sum", "avg", "count", "max", "min", "last", "delta", "derive", "stdev", "percentiles", "sum", "avg", "bogus", ""}[g.Pick(14)]
		match := []string{"regex=" + c14Regex[g.Pick(6)], "regex=" + c14Regex[g.Pick(len(c14Regex))], c14Regex[g.Pick(6)], "sub=requests", "prefix=stats. regex=" + c14Regex[g.Pick(6)], "notRegex=" + c14Regex[g.Pick(len(c14Regex))] + " regex=^stats"}[g.Pick(6)]
		tail := []string{"", "", " cache=true", " cache=false dropRaw=true", " dropRaw=maybe", " bogus", " dropRaw=true"}[g.Pick(7)]
		return fmt.Sprintf("addAgg %s %s %s %s %s%s", fun, match, []string{"agg.$1", "agg", "$9", "agg.$1", ""}[g.Pick(5)], c14Int(g), c14Int(g), tail)
	case 4, 5, 6:
		if clean {
			typ := []string{"sendAllMatch", "sendFirstMatch", "consistentHashing"}[g.Pick(3)]
			key := fmt.Sprintf("rt%d", len(*routeKeys))
			*routeKeys = append(*routeKeys, key)
			opts := []string{"", "", " prefix=a.", " regex=" + c14Regex[g.Pick(6)], " sub=b notSub=c"}[g.Pick(5)]
			nd := 1 + g.Intn(3)
			if typ == "consistentHashing" && nd < 2 {
				nd = 2
			}
			var dests []string
			for i := 0; i < nd; i++ {
				dests = append(dests, c14CleanDest(g, len(*routeKeys)*4+i))
			}
			good.keys = append(good.keys, key)
			good.nd[key] = nd
			return fmt.Sprintf("addRoute %s %s%s  %s", typ, key, opts, strings.Join(dests, "  "))
		}
		typ := []string{"sendAllMatch", "sendFirstMatch", "consistentHashing", "consistentHashing", "sendAllMatch", "bogusType"}[g.Pick(6)]
		key := fmt.Sprintf("rt%d", len(*routeKeys))
		*routeKeys = append(*routeKeys, key)
		opts := []string{"", "", " prefix=a.", " regex=" + c14Regex[g.Pick(len(c14Regex))], " sub=b notSub=c", " bogus=1"}[g.Pick(6)]
		nd := 1 + g.Intn(3)
		if g.Bool(0.1) {
			nd = 0
		}
		var dests []string
		for i := 0; i < nd; i++ {
			dests = append(dests, c14Dest(g, len(*routeKeys)*4+i))
		}
		return fmt.Sprintf("addRoute %s %s%s  %s", typ, key, opts, strings.Join(dests, "  "))
	case 7:
		if g.Bool(0.4) {
			// a kafkaMdm route (the cluster is scripted, DESIGN.md 3.6b); bufSize is always given: the default of 1e7 slots is legal
			// but costs a quarter of a gigabyte per route
			key := fmt.Sprintf("kf%d", len(*routeKeys))
			*routeKeys = append(*routeKeys, key)
			opts := []string{"bufSize=" + []string{"100", "1", "0", "1000", "7"}[g.Pick(5)]}
			for _, k := range []string{"flushMaxNum", "flushMaxWait", "timeout"} {
				if g.Bool(0.35) {
					opts = append(opts, k+"="+c14Int(g))
				}
			}
			if g.Bool(0.2) {
				opts = append(opts, "blocking="+[]string{"true", "false"}[g.Pick(2)])
			}
			if g.Bool(0.15) {
				opts = append(opts, "tlsEnabled="+[]string{"true", "false"}[g.Pick(2)])
				if g.Bool(0.5) {
					opts = append(opts, "tlsSkipVerify=true")
				}
				if g.Bool(0.4) {
					opts = append(opts, "tlsClientCert=/nonexistent/cert.pem tlsClientKey=/nonexistent/key.pem")
				}
			}
			if g.Bool(0.15) {
				opts = append(opts, "saslEnabled="+[]string{"true", "false"}[g.Pick(2)])
				opts = append(opts, "saslMechanism="+[]string{"SCRAM-SHA-256", "SCRAM-SHA-512", "PLAIN", "bogus"}[g.Pick(4)])
				if g.Bool(0.7) {
					opts = append(opts, "saslUsername=u saslPassword=p")
				}
			}
			brokers := []string{"kafka.sim:9092", "kafka.sim:9092,kafka2.sim:9092", "kafka.sim", ","}[g.Pick(4)]
			codec := []string{"none", "gzip", "snappy", "snappy", "lz4"}[g.Pick(5)]
			partBy := []string{"byOrg", "bySeries", "bySeriesWithTags", "bySeriesWithTagsFnv", "bogus"}[g.Pick(5)]
			org := []string{"1", "7", "0", "x", "-3"}[g.Pick(5)]
			if clean {
				codec, partBy, org = []string{"none", "gzip", "snappy"}[g.Pick(3)], []string{"byOrg", "bySeries", "bySeriesWithTags", "bySeriesWithTagsFnv"}[g.Pick(4)], "1"
			}
			filt := []string{"", "prefix=a. ", "regex=^stats ", "sub=cpu "}[g.Pick(4)]
			return fmt.Sprintf("addRoute kafkaMdm %s %s %s mdm %s @SCHEMAS@ %s %s %s", key, filt, brokers, codec, partBy, org, strings.Join(opts, " "))
		}
		key := fmt.Sprintf("gn%d", len(*routeKeys))
		*routeKeys = append(*routeKeys, key)
		var opts []string
		for _, k := range []string{"concurrency", "bufSize", "flushMaxNum", "flushMaxWait", "timeout", "orgId", "errBackoffMin"} {
			if g.Bool(0.3) {
				v := c14Int(g)
				if k == "concurrency" && len(v) > 2 && v[0] != '-' && v[0] != '9' {
					v = "20" // a hundred thousand shard workers is legal but not interesting here
				}
				opts = append(opts, k+"="+v)
			}
		}
		if g.Bool(0.2) {
			opts = append(opts, "errBackoffFactor="+[]string{"0", "1.5", "-1", "x"}[g.Pick(4)])
		}
		if g.Bool(0.2) {
			opts = append(opts, "blocking="+[]string{"true", "false"}[g.Pick(2)])
		}
		addr := []string{"http://grafana.sim/metrics", "http://grafana.sim/metrics", "http://grafana.sim/graphite/metrics/", "grafana.sim/metrics", "http://grafana.sim/other", ""}[g.Pick(6)]
		return fmt.Sprintf("addRoute grafanaNet %s  %s apikey @SCHEMAS@ @AGG@ %s", key, addr, strings.Join(opts, " "))
	case 8:
		k := good.pick(g, *routeKeys)
		if clean {
			return fmt.Sprintf("modRoute %s %s", k, []string{"prefix=a.", "regex=" + c14Regex[g.Pick(6)], "sub=b", "notPrefix=zz", "prefix=", "notRegex=^zz sub=."}[g.Pick(6)])
		}
		return fmt.Sprintf("modRoute %s %s", k, []string{"prefix=a.", "regex=" + c14Regex[g.Pick(len(c14Regex))], "sub=", "bogus=1", ""}[g.Pick(5)])
	case 9:
		k := good.pick(g, *routeKeys)
		if clean {
			idx := 0
			if n := good.nd[k]; n > 0 {
				idx = g.Intn(n)
			}
			return fmt.Sprintf("modDest %s %d %s", k, idx, []string{"prefix=a.", "addr=10.5.0.3:2003", "addr=10.5.0.9:2003", "regex=^a notPrefix=b", "sub=b", "notSub=zz regex=.*", "prefix="}[g.Pick(7)])
		}
		return fmt.Sprintf("modDest %s %s %s", k, []string{"0", "1", "0", "2", "7", "x", "-1", "-2", "99999999999999999999"}[g.Pick(9)], []string{"prefix=a.", "addr=10.5.0.3:2003", "addr=10.5.0.9:2003", "addr=bad", "regex=(", "regex=^a notPrefix=b", "pickle=true", ""}[g.Pick(8)])
	case 10:
		if g.Bool(0.5) {
			return "delRoute " + good.pick(g, *routeKeys)
		}
		k := "nokey"
		if len(*routeKeys) > 0 {
			k = (*routeKeys)[g.Pick(len(*routeKeys))]
		}
		return "delRoute " + k
	case 11:
		key := fmt.Sprintf("rk%d", len(*routeKeys))
		*routeKeys = append(*routeKeys, key)
		return strings.Replace([]string{
			"addRoute grafanaNet KEY  http://grafana.sim/metrics apikey @SCHEMAS@ @AGG@ concurrency=0",
			"addRoute grafanaNet KEY  http://grafana.sim/metrics apikey @SCHEMAS@ @AGG@ bufSize=0 concurrency=3",
			"addRoute grafanaNet KEY  http://grafana.sim/metrics apikey @SCHEMAS@ @AGG@ flushMaxNum=0 flushMaxWait=0 timeout=0",
			"addRoute grafanaNet KEY  http://grafana.sim/metrics apikey @SCHEMAS@ @AGG@ errBackoffMin=0 errBackoffFactor=0",
			"addRoute consistentHashing KEY  10.5.1.1:2003  10.5.1.2:2003",
			"addRoute consistentHashing KEY  10.5.1.1:2003",
			"addRoute sendAllMatch KEY  10.5.1.1:2003 flush=0",
			"addRoute sendAllMatch KEY  10.5.1.1:2003 spool=true spoolsyncperiod=0 spoolsyncevery=0",
			"addRoute sendAllMatch KEY  10.5.1.1:2003 spool=true spoolmaxbytesperfile=1 spoolbuf=0 connbuf=0 iobuf=1",
			"addRoute sendFirstMatch KEY  10.5.1.1:2003 reconn=0  10.5.1.2:2003 pickle=true",
			"addAgg sum regex=^stats\\.(.*) agg.$1 0 10",
			"addAgg avg ^stats\\.(.*) agg.$1 10 0 cache=false",
			"addAgg percentiles regex=^stats agg 1 1",
			"addRoute sendAllMatch KEY  10.5.1.1:2003 unspoolsleep=0 spoolsleep=0 spool=true",
		}[g.Pick(14)], "KEY", key, 1)
	default:
		return []string{"view", "help", "", "add", "addRoute", "addRoute sendAllMatch", "addAgg sum", "del", "mod", "\x00\x01\x02", strings.Repeat("A", 2000), "addDest rt0 10.5.0.1:2003", "view extra"}[g.Pick(13)]
	}
}

func c14TOML(g *simrt.Choices, sf, af string) string {
	var b strings.Builder
	b.WriteString("instance = \"sim\"\nspool_dir = \"/spool\"\n")
	if g.Bool(0.3) {
		fmt.Fprintf(&b, "bad_metrics_max_age = \"%s\"\n", []string{"24h", "0s", "1ns", "bogus"}[g.Pick(4)])
	} else {
		b.WriteString("bad_metrics_max_age = \"24h\"\n")
	}
	if g.Bool(0.3) {
		fmt.Fprintf(&b, "blacklist = [ '%s' ]\n", []string{"prefix collectd.localhost", "regex (", "bogus x", "prefix"}[g.Pick(4)])
	}
	for i, n := 0, g.Intn(3); i < n; i++ {
		b.WriteString("[[aggregation]]\n")
		fmt.Fprintf(&b, "function = '%s'\n", []string{"sum", "avg", "percentiles", "bogus"}[g.Pick(4)])
		if g.Bool(0.8) {
			fmt.Fprintf(&b, "regex = '%s'\n", c14Regex[g.Pick(len(c14Regex)-1)])
		}
		fmt.Fprintf(&b, "format = 'agg.$1'\ninterval = %s\nwait = %s\n", []string{"10", "0", "1", "-1"}[g.Pick(4)], []string{"20", "0", "-5"}[g.Pick(3)])
		if g.Bool(0.3) {
			b.WriteString("dropRaw = true\n")
		}
	}
	for i, n := 0, g.Intn(2); i < n; i++ {
		fmt.Fprintf(&b, "[[rewriter]]\nold = '%s'\nnew = 'N'\nnot = ''\nmax = %s\n", []string{"a", "/a/", "", "/(/"}[g.Pick(4)], []string{"-1", "0", "3", "-2"}[g.Pick(4)])
	}
	for i, n := 0, g.Intn(3); i < n; i++ {
		typ := []string{"sendAllMatch", "sendFirstMatch", "consistentHashing", "grafanaNet", "bogus", "kafkaMdm"}[g.Pick(6)]
		fmt.Fprintf(&b, "[[route]]\nkey = 'tr%d'\ntype = '%s'\n", i, typ)
		if typ == "kafkaMdm" {
			fmt.Fprintf(&b, "brokers = [%s]\ntopic = 'mdm'\ncodec = '%s'\npartitionBy = '%s'\nschemasFile = '%s'\nbufSize = %s\n",
				[]string{"'kafka.sim:9092'", "'kafka.sim:9092', 'kafka2.sim:9092'", ""}[g.Pick(3)], []string{"none", "snappy", "gzip", "bogus"}[g.Pick(4)],
				[]string{"byOrg", "bySeries", "bySeriesWithTags", "bogus"}[g.Pick(4)], sf, []string{"100", "1", "1000"}[g.Pick(3)])
			for _, k := range []string{"flushMaxNum", "flushMaxWait", "timeout", "orgId"} {
				if g.Bool(0.3) {
					fmt.Fprintf(&b, "%s = %s\n", k, []string{"0", "1", "5", "-1", "100"}[g.Pick(5)])
				}
			}
			if g.Bool(0.2) {
				b.WriteString("blocking = true\n")
			}
			if g.Bool(0.15) {
				fmt.Fprintf(&b, "saslEnabled = true\nsaslMechanism = '%s'\nsaslUsername = 'u'\nsaslPassword = 'p'\n", []string{"SCRAM-SHA-256", "SCRAM-SHA-512", "bogus", ""}[g.Pick(4)])
			}
			if g.Bool(0.1) {
				b.WriteString("tlsEnabled = true\ntlsClientCert = '/nonexistent/cert.pem'\ntlsClientKey = '/nonexistent/key.pem'\n")
			}
			continue
		}
		if typ == "grafanaNet" {
			fmt.Fprintf(&b, "addr = 'http://grafana.sim/metrics'\napikey = 'k'\nschemasFile = '%s'\naggregationFile = '%s'\n", sf, af)
			for _, k := range []string{"concurrency", "bufSize", "flushMaxNum", "flushMaxWait", "timeout"} {
				if g.Bool(0.3) {
					fmt.Fprintf(&b, "%s = %s\n", k, []string{"0", "1", "5", "-1"}[g.Pick(4)])
				}
			}
			continue
		}
		if g.Bool(0.3) {
			fmt.Fprintf(&b, "regex = '%s'\n", c14Regex[g.Pick(len(c14Regex)-1)])
		}
		var ds []string
		for d, nd := 0, g.Intn(4); d < nd; d++ {
			ds = append(ds, "'"+c14Dest(g, 50+i*4+d)+"'")
		}
		fmt.Fprintf(&b, "destinations = [ %s ]\n", strings.Join(ds, ", "))
	}
	return b.String()
}

func scenC14(x *Exec) {
	g := x.Gen
	cfg0 := SwarmConfig(g)
	sf, af, err := gnConfFiles("[default]\npattern = .*\nretentions = 10s:1d\n")
	if err != nil {
		x.Out.Infra = err.Error()
		return
	}
	p := c14Plan{}
	if g.Bool(0.5) {
		p.TOML = c14TOML(g, sf, af)
	}
	var keys []string
	good := &c14Good{nd: map[string]int{}}
	if g.Bool(0.4) { // a route that certainly exists, so that the mod/del commands below have something to work on
		key := "rt0"
		keys = append(keys, key)
		nd := 2 + g.Intn(2)
		var ds []string
		for i := 0; i < nd; i++ {
			ds = append(ds, c14CleanDest(g, i))
		}
		good.keys, good.nd[key] = append(good.keys, key), nd
		p.Cmds = append(p.Cmds, fmt.Sprintf("addRoute %s %s  %s", []string{"sendAllMatch", "sendFirstMatch", "consistentHashing"}[g.Pick(3)], key, strings.Join(ds, "  ")))
	}
	for i, n := 0, g.Intn(7); i < n; i++ {
		c := c14Cmd(g, &keys, good)
		c = strings.Replace(strings.Replace(c, "@SCHEMAS@", sf, 1), "@AGG@", af, 1)
		p.Cmds = append(p.Cmds, c)
	}
	for i, n := 0, g.Intn(3); i < n; i++ {
		p.Direct = append(p.Direct, []string{"delDest", "delDestAll", "delBlack", "delRewriter", "delAgg", "flush"}[g.Pick(6)])
	}
	for i, n := 0, g.Intn(4); i < n; i++ {
		p.Garbage = append(p.Garbage, []string{"plain-binary", "plain-longline", "pickle-random", "pickle-hugelen", "pickle-prefix-garbage", "pickle-wrongtypes", "udp-binary", "amqp-binary"}[g.Pick(8)])
	}
	p.Traffic = 5 + g.Intn(40)
	p.Flap = g.Bool(0.5)
	if g.Bool(0.4) {
		p.KafkaConnectFails = g.Intn(5)
		for i, n := 0, g.Intn(6); i < n; i++ {
			p.KafkaScript = append(p.KafkaScript, []string{"ok", "fail-all", "fail-some", "slow"}[g.Pick(4)])
		}
	}
	p.AdvanceS = []int{25, 70, 130}[g.Pick(3)]
	x.Out.Sample = p
	cfg0.Horizon = 3 * time.Hour
	cfg0.MaxSteps = 1500000
	cfg0.MaxReal = 40 * time.Second
	x.AllowCutShort = true
	prop := "C14"

	s := x.Bubble(cfg0, func(s *simrt.Sim) {
		nc := simnet.DefaultConfig()
		nc.ChunkP = 0 // the admin port treats one read as one command; stream segmentation is C12's subject
		nw := simnet.NewNet(nc)
		simnet.Use(nw)
		simhttp.Use(&gnServer{s: s, cond: simrt.NewCond()})
		simsarama.Use(&kafkaCluster{s: s, ConnectFails: p.KafkaConnectFails, Script: p.KafkaScript, NumPart: 4, Topic: "mdm"})
		var tbl *table.Table
		var berr error
		started := false
		cond := simrt.NewCond()
		deliveries := make(chan amqp.Delivery)
		s.Spawn("relay-boot", "relay", "relay1", func() {
			initRelayGlobals()
			text := p.TOML
			if text == "" {
				text = "instance = \"sim\"\nspool_dir = \"/spool\"\nbad_metrics_max_age = \"24h\"\n"
			}
			tbl, _, berr = bootFromTOML(text)
			if tbl != nil {
				input.NewListener("0.0.0.0:2003", 2*time.Minute, input.NewPlain(tbl)).Start()
				input.NewListener("0.0.0.0:2013", 2*time.Minute, input.NewPickle(tbl)).Start()
				input.NewAMQP(cfg.NewConfig(), tbl, input.VerifAMQPConnector(deliveries)).Start()
				simrt.Go("telnet", func() { telnet.Start("0.0.0.0:2004", tbl) })
			}
			simrt.Yield("boot")
			started = true
			cond.Broadcast()
		})
		cond.Wait(func() bool { return started }, time.Time{})
		if tbl == nil {
			// the configuration was rejected outright: that is a legal outcome
			x.Out.StateSig = "config rejected: " + fmt.Sprint(berr)
			return
		}
		if berr != nil {
			s.Probe("c14.config_rejected_with_error")
		}
		// some of the configured destinations exist and read what they get
		var c14eps []*Endpoint
		for i := 1; i <= 3; i++ {
			ep := NewEndpoint(s, nw, fmt.Sprintf("10.5.0.%d:2003", i))
			ep.ResetOnDown = i == 2
			ep.Start()
			c14eps = append(c14eps, ep)
		}
		if p.Flap {
			// ... and come and go while the relay works with whatever buffer, flush and spool settings the commands gave it
			s.Spawn("flapper", "endpoint", "faults", func() {
				for k := 0; k < 12; k++ {
					simrt.Sleep(time.Duration([]int{300, 1500, 40, 7000, 900, 2500}[k%6]) * time.Millisecond)
					ep := c14eps[k%3]
					if ep.Up {
						ep.Down()
					} else {
						ep.Start()
					}
				}
				for _, ep := range c14eps {
					if !ep.Up {
						ep.Start()
					}
				}
			})
			s.Probe("c14.flapping_endpoints")
		}
		NewEndpoint(s, nw, "10.5.1.1:2003").Start()
		simrt.Sleep(5 * time.Millisecond)
		dial := func(port int) *simnet.TCPConn {
			ra, _ := simnet.ResolveTCPAddr("tcp", fmt.Sprintf("10.9.9.9:%d", port))
			c, err := nw.DialTCP(nil, ra)
			if err != nil {
				return nil
			}
			return c
		}
		// admin commands over the TCP admin port, answers are read (and ignored)
		if len(p.Cmds) > 0 {
			if c := dial(2004); c != nil {
				drain := func() string {
					c.SetReadDeadline(time.Now().Add(50 * time.Millisecond))
					buf := make([]byte, 65536)
					var all []byte
					for {
						n, err := c.Read(buf)
						all = append(all, buf[:n]...)
						if err != nil {
							return string(all)
						}
					}
				}
				drain()
				for _, cmd := range p.Cmds {
					if _, err := c.Write([]byte(cmd + "\n")); err != nil {
						break
					}
					simrt.Sleep(20 * time.Millisecond)
					resp := drain()
					verb := strings.SplitN(cmd, " ", 2)[0]
					if len(verb) > 12 || strings.ContainsAny(verb, "\x00\x01") {
						verb = "garbage"
					}
					if strings.HasPrefix(resp, "ok\n") {
						s.Probe("c14.cmd_accepted." + verb)
					} else {
						s.Probe("c14.cmd_rejected." + verb)
						if os.Getenv("CRSIM_C14_WHY") != "" && verb == "addRoute" {
							line := strings.SplitN(resp, "\n", 2)[0]
							if len(line) > 60 {
								line = line[:60]
							}
							s.Probe("why: " + line)
						}
					}
				}
				c.Close()
			}
		}
		// operations the web/admin layer performs through the Table API
		snap := tbl.Snapshot()
		simrt.Yield("snapshot")
		for _, op := range p.Direct {
			func() {
				switch op {
				case "delDest", "delDestAll":
					for _, r := range snap.Routes {
						n := 1
						if op == "delDestAll" {
							n = len(r.Dests) + 1
						}
						for i := 0; i < n; i++ {
							tbl.DelDestination(r.Key, 0)
							simrt.Yield("deldest")
						}
					}
				case "delBlack":
					tbl.DelBlacklist(0)
				case "delRewriter":
					tbl.DelRewriter(1)
				case "delAgg":
					tbl.DelAggregator(0)
				case "flush":
					tbl.Flush()
				}
				simrt.Yield("direct-op")
			}()
		}
		// garbage on every input
		for _, k := range p.Garbage {
			var payload []byte
			switch k {
			case "plain-binary":
				payload = []byte("\x00\xff\xfe a b\n\n \n\x80\x81 1 2\nname \x00 1\n")
			case "plain-longline":
				payload = []byte(strings.Repeat("x", 70000) + " 1 2\nok.line 1 1500000000\n")
			case "pickle-random":
				payload = []byte("\x00\x00\x00\x10abcdefghijklmnop\x00\x00")
			case "pickle-hugelen":
				payload = []byte("\xff\xff\xff\xff\x80\x02]")
			case "pickle-prefix-garbage":
				payload = []byte("\x00\x00\x00\x08\x80\x02]\xff\xfe\xfd\xfc.")
			case "pickle-wrongtypes":
				// protocol 2: [ (1, 2), 'str', ('n', ('t', None)), {} ]
				body := "\x80\x02]q\x00(K\x01K\x02\x86q\x01U\x03strq\x02U\x01nq\x03U\x01tq\x04N\x86q\x05\x86q\x06}q\x07e."
				payload = append([]byte{0, 0, 0, byte(len(body))}, body...)
			case "udp-binary":
				nw.SendUDP("10.9.9.9:2003", []byte("\x00\x01 \xff\n\n  \nx 1 2 3 4\n"))
				continue
			case "amqp-binary":
				deliveries <- amqp.Delivery{Body: []byte("\x00\xff\n\r\n x \n" + strings.Repeat("y", 9000))}
				simrt.Yield("amqp")
				continue
			}
			port := 2003
			if strings.HasPrefix(k, "pickle") {
				port = 2013
			}
			if c := dial(port); c != nil {
				c.Write(payload)
				c.Close()
			}
		}
		// ordinary traffic through whatever table the commands built, on two connections at once
		var payloads [2]string
		for k := range payloads {
			var b strings.Builder
			for i := 0; i < p.Traffic; i++ {
				// valid lines in every layout the validator lets through: tabs and runs of blanks between the fields, a carriage
				// return at the end, unusual numeric spellings, timestamps far behind
				sep := func() string { return []string{" ", " ", " ", " ", "\t", "  ", " \t", "\t\t"}[g.Pick(8)] }
				val := fmt.Sprint(i)
				if g.Bool(0.15) {
					val = []string{"1e3", "+5", "-0.5", ".5", "0x1p-2", "NaN", "1e400"}[g.Pick(7)]
				}
				ts := 946684800 + i
				if g.Bool(0.1) {
					ts -= []int{100, 5000, 946684000}[g.Pick(3)]
				}
				fmt.Fprintf(&b, "%s%s%s%s%d%s\n", c14Names[g.Pick(len(c14Names))], sep(), val, sep(), ts, []string{"", "", "", "\r", " "}[g.Pick(5)])
			}
			payloads[k] = b.String()
		}
		sent := 0
		tcond := simrt.NewCond()
		for k := range payloads {
			k := k
			s.Spawn(fmt.Sprintf("traffic%d", k), "client", "harness", func() {
				if c := dial(2003); c != nil {
					c.Write([]byte(payloads[k]))
					c.Close()
				}
				simrt.Yield("traffic-sent")
				sent++
				tcond.Broadcast()
			})
		}
		tcond.Wait(func() bool { return sent == len(payloads) }, time.Now().Add(10*time.Minute))
		// let every ticker and timer that was created from user parameters fire
		simrt.Sleep(time.Duration(p.AdvanceS) * time.Second)
		x.Out.Nontrivial = len(p.Cmds)+len(p.Garbage) > 0
		x.Out.StateSig = fmt.Sprintf("cmds=%d toml=%v garbage=%d routes=%d", len(p.Cmds), p.TOML != "", len(p.Garbage), len(snap.Routes))
	})
	finishRun(x, s, prop)
}
