package crsim

// Scenario S1: the routing table pipeline (validation, blacklist, rewriters, aggregations, routes,
// destinations) with capture routes and real routes/destinations/endpoints.
// C01 routing, C03 filters (sub-scenario with dense filters at all four sites), C04 bytes and
// buffer isolation.  C02 (validation) lives in scen_validation.go.

import (
	"bytes"
	"fmt"
	"sort"
	"strings"
	"time"

	"crsim/simnet"
	"crsim/simrt"

	"github.com/grafana/carbon-relay-ng/aggregator"
	"github.com/grafana/carbon-relay-ng/cfg"
	"github.com/grafana/carbon-relay-ng/destination"
	"github.com/grafana/carbon-relay-ng/matcher"
	"github.com/grafana/carbon-relay-ng/rewriter"
	"github.com/grafana/carbon-relay-ng/route"
	"github.com/grafana/carbon-relay-ng/table"
	"github.com/grafana/carbon-relay-ng/validate"
)

func init() {
	Register("C01", func(x *Exec) { scenTable(x, "C01") })
	Register("C03", func(x *Exec) { scenTable(x, "C03") })
	Register("C04", func(x *Exec) { scenTable(x, "C04") })
}

// capCall is one Dispatch call seen by a capture route.
type capCall struct {
	ref  []byte // the slice as handed over (to detect later mutation)
	copy []byte // its content at hand-off time
}

// capRoute is a harness route.Route: the filter is a real matcher.Matcher, the sink is a recorder.
type capRoute struct {
	key   string
	m     *matcher.Matcher // replaced wholesale (copy-on-write), like the real routes' config snapshot
	Calls []capCall
	Hook  func(buf []byte) // optional, runs inside Dispatch
}

func (c *capRoute) Dispatch(buf []byte) {
	c.Calls = append(c.Calls, capCall{ref: buf, copy: append([]byte(nil), buf...)})
	if c.Hook != nil {
		c.Hook(buf)
	}
}
func (c *capRoute) Match(s []byte) bool {
	m := c.m
	if m == nil {
		return true
	}
	return m.Match(s)
}
func (c *capRoute) Snapshot() route.Snapshot {
	var m matcher.Matcher
	if c.m != nil {
		m = *c.m
	}
	return route.Snapshot{Matcher: m, Type: "capture", Key: c.key}
}
func (c *capRoute) Key() string     { return c.key }
func (c *capRoute) Flush() error    { return nil }
func (c *capRoute) Shutdown() error { return nil }
func (c *capRoute) GetDestination(index int) (*destination.Destination, error) {
	return nil, fmt.Errorf("capture route has no destinations")
}
func (c *capRoute) DelDestination(index int) error {
	return fmt.Errorf("capture route has no destinations")
}
func (c *capRoute) UpdateDestination(index int, opts map[string]string) error {
	return fmt.Errorf("capture route has no destinations")
}
func (c *capRoute) Update(opts map[string]string) error { return fmt.Errorf("capture route") }

func mkMatcher(f FilterSpec) (matcher.Matcher, error) {
	return matcher.New(f.Prefix, f.NotPrefix, f.Sub, f.NotSub, f.Regex, f.NotRegex)
}

// builtTable is a real table plus the handles the oracles need.
type builtTable struct {
	T       *table.Table
	Plan    *TablePlan
	Caps    map[int]*capRoute
	Routes  []route.Route
	Aggs    []*aggregator.Aggregator
	Eps     map[string]*Endpoint // by destination address
	DestCfg map[string]destCfg
	Rings   map[int]*RefRing
}

var tableFlushMs = 20

func fastDestCfg(addr string) destCfg {
	d := defaultDestCfg(addr)
	d.FlushMs = tableFlushMs
	d.ReconnMs = 1000
	d.ConnBuf = 30000
	d.IOBuf = 4096
	return d
}

// buildTable constructs the real table for a plan (inside the bubble, as a relay task).
func buildTable(s *simrt.Sim, nw *simnet.Net, tp *TablePlan) (*builtTable, error) {
	var lg validate.LevelLegacy
	var lm validate.LevelM20
	if err := lg.UnmarshalText([]byte(tp.Legacy)); err != nil {
		return nil, err
	}
	if err := lm.UnmarshalText([]byte(tp.M20)); err != nil {
		return nil, err
	}
	tc, err := table.NewTableConfig("/spool", "24h", lg, lm, tp.Order)
	if err != nil {
		return nil, err
	}
	bt := &builtTable{Plan: tp, Caps: map[int]*capRoute{}, Eps: map[string]*Endpoint{}, DestCfg: map[string]destCfg{}, Rings: map[int]*RefRing{}}
	bt.T = table.New(tc)
	// entries with a single option can be written in the config file's `blacklist = [ "prefix x", "regex y" ]` form: when all
	// of them are, they take the real configuration path (cfg.InitBlacklist), otherwise the table API
	var legacy []string
	for _, b := range tp.Blacklist {
		if l, ok := b.legacyBlacklistLine(); ok {
			legacy = append(legacy, l)
		}
	}
	if len(legacy) == len(tp.Blacklist) && len(legacy) > 0 {
		if err := cfg.InitBlacklist(bt.T, cfg.Config{BlackList: legacy}); err != nil {
			return nil, err
		}
		s.Probe("table.blacklist_via_config_lines")
	} else {
		for _, b := range tp.Blacklist {
			m, err := mkMatcher(b)
			if err != nil {
				return nil, err
			}
			bt.T.AddBlacklist(&m)
		}
	}
	for _, r := range tp.Rewriters {
		rw, err := rewriter.New(r.Old, r.New, r.Not, r.Max)
		if err != nil {
			return nil, err
		}
		bt.T.AddRewriter(rw)
	}
	for _, a := range tp.Aggs {
		m, err := mkMatcher(a.F)
		if err != nil {
			return nil, err
		}
		ag, err := aggregator.New(a.Fun, m, a.OutFmt, a.Cache, a.Interval, a.Wait, a.DropRaw, bt.T.In)
		if err != nil {
			return nil, err
		}
		bt.T.AddAggregator(ag)
		bt.Aggs = append(bt.Aggs, ag)
	}
	for ri, r := range tp.Routes {
		m, err := mkMatcher(r.F)
		if err != nil {
			return nil, err
		}
		if r.Type == "capture" {
			c := &capRoute{key: r.Key, m: &m}
			bt.Caps[ri] = c
			bt.T.AddRoute(c)
			bt.Routes = append(bt.Routes, c)
			continue
		}
		var dests []*destination.Destination
		var addrs []string
		for _, d := range r.Dests {
			dm, err := mkMatcher(d.F)
			if err != nil {
				return nil, err
			}
			dc := fastDestCfg(d.Addr)
			dd, err := dc.build(r.Key, dm)
			if err != nil {
				return nil, err
			}
			dests = append(dests, dd)
			addrs = append(addrs, d.Addr)
			bt.DestCfg[d.Addr] = dc
			hostport := strings.Join(strings.Split(d.Addr, ":")[:2], ":")
			ep := NewEndpoint(s, nw, hostport)
			if err := ep.Start(); err != nil {
				return nil, err
			}
			bt.Eps[d.Addr] = ep
		}
		var rt route.Route
		switch r.Type {
		case "sendAllMatch":
			rt, err = route.NewSendAllMatch(r.Key, m, dests)
		case "sendFirstMatch":
			rt, err = route.NewSendFirstMatch(r.Key, m, dests)
		case "consistentHashing":
			rt, err = route.NewConsistentHashing(r.Key, m, dests)
			bt.Rings[ri] = NewRefRing(addrs)
		}
		if err != nil {
			return nil, err
		}
		bt.T.AddRoute(rt)
		bt.Routes = append(bt.Routes, rt)
	}
	return bt, nil
}

func (bt *builtTable) ring(ri int, name []byte) int { return bt.Rings[ri].Owner(name) }

// waitOnline waits until every real destination has its connection.
func (bt *builtTable) waitOnline() {
	for ri, r := range bt.Plan.Routes {
		if r.Type == "capture" {
			continue
		}
		for di := range r.Dests {
			d, err := bt.Routes[ri].GetDestination(di)
			simrt.Yield("getdest")
			if err != nil {
				continue
			}
			for !d.Online {
				simrt.Sleep(time.Millisecond)
			}
		}
	}
}

type tableRunPlan struct {
	Timeful bool       `json:"timeful"` // long simulated pauses: aggregations flush, match caches expire
	Table   TablePlan  `json:"table"`
	Clients [][]string `json:"client_lines_head"`
	NLines  int        `json:"lines"`
	Via     string     `json:"via"` // direct | listener
	// filter changes applied through the table API (modRoute / modDest) after the table was built and before any traffic:
	// Table above is the result, the table is built from the plan as it was before them
	Mods []c18Op `json:"filter_changes_before_traffic,omitempty"`
	pre  *TablePlan
}

func genTablePlan(g *simrt.Choices, prop string) TablePlan {
	tp := TablePlan{Legacy: "medium", M20: "medium"}
	density := 0.25
	if prop == "C03" {
		density = 0.45
	}
	for i, n := 0, g.Intn(4); i < n; i++ {
		f := genFilter(g, density)
		if f.Empty() {
			f.Prefix = nameFrags[g.Pick(len(nameFrags))] + "." + nameFrags[g.Pick(len(nameFrags))]
		}
		tp.Blacklist = append(tp.Blacklist, f)
	}
	for i, n := 0, g.Intn(4); i < n; i++ {
		var r RwSpec
		switch g.Pick(4) {
		case 0:
			r = RwSpec{Old: nameFrags[g.Pick(len(nameFrags))], New: nameFrags[g.Pick(len(nameFrags))], Max: []int{-1, 1, 2, 0}[g.Pick(4)]}
		case 1:
			r = RwSpec{Old: ".", New: []string{"_", "", ".."}[g.Pick(3)], Max: []int{-1, 1}[g.Pick(2)]}
		case 2:
			r = RwSpec{Old: "/" + []string{`\.([a-z]+)$`, `^([a-z]+)\.`, `[0-9]+`, `(a)(b)?`, `\.`}[g.Pick(5)] + "/", New: []string{".${1}_x", "${1}-", "N", "$1$1", "<${2}>"}[g.Pick(5)], Max: -1}
		default:
			r = RwSpec{Old: nameFrags[g.Pick(len(nameFrags))], New: "R", Max: -1}
		}
		if g.Bool(0.3) {
			if g.Bool(0.5) {
				r.Not = nameFrags[g.Pick(len(nameFrags))]
			} else {
				r.Not = "/" + genRegex(g) + "/"
			}
		}
		tp.Rewriters = append(tp.Rewriters, r)
	}
	for i, n := 0, g.Intn(3); i < n; i++ {
		f := genFilter(g, density)
		f.Regex = genRegex(g)
		a := AggSpec{Fun: []string{"sum", "avg", "count", "max", "last"}[g.Pick(5)], F: f, OutFmt: []string{"agg.$1", "agg.all", "aggr.${1}.x"}[g.Pick(3)],
			Cache: g.Bool(0.5), Interval: 60, Wait: 7200, DropRaw: g.Bool(0.4)}
		tp.Aggs = append(tp.Aggs, a)
	}
	nr := 1 + g.Intn(5)
	naddr := 0
	for i := 0; i < nr; i++ {
		r := RouteSpec{Key: fmt.Sprintf("r%d", i), F: genFilter(g, density)}
		switch g.Pick(6) {
		case 0, 1:
			r.Type = "capture"
		case 2, 3:
			r.Type = "sendAllMatch"
		case 4:
			r.Type = "sendFirstMatch"
		default:
			r.Type = "consistentHashing"
		}
		if r.Type != "capture" {
			nd := 1 + g.Intn(3)
			if r.Type == "consistentHashing" && nd < 2 {
				nd = 2
			}
			for d := 0; d < nd; d++ {
				naddr++
				ds := DestSpec{Addr: fmt.Sprintf("10.2.%d.%d:2003", i, d+1)}
				if r.Type != "consistentHashing" {
					ds.F = genFilter(g, density)
				} else if g.Bool(0.5) {
					ds.Addr += ":" + []string{"a", "b", "c"}[d%3]
				}
				r.Dests = append(r.Dests, ds)
			}
		}
		tp.Routes = append(tp.Routes, r)
	}
	return tp
}

var badLines = []string{"", " ", "onlyname", "name 1", "a.b 1 2 3", "a.b x 1500000000", "a.b 1 y", "a..b 1 1500000000", "a.b\x00c 1 1500000000", "a.b 1 -5x", "é.b 1 1500000000"}

func genLine(g *simrt.Choices, i int, prop string) string {
	if g.Bool(0.12) {
		return badLines[g.Pick(len(badLines))]
	}
	name := genName(g)
	// values and timestamps deliberately contain filter fragments ("5", "1", ...)
	val := []string{"5", "1", "0.5", "55", "1e3", "-5", "+5", "0x1p-2", ".5", "-0", "5.000"}[g.Pick(11)]
	ts := fmt.Sprintf("%d", 946684800+i%50+[]int{0, 5, 55, 500}[g.Pick(4)])
	if prop == "C04" || g.Bool(0.1) {
		// other whitespace layouts are valid input too; routes and destinations must still see the name only
		seps := []string{" ", "  ", "\t", " \t "}
		lead := []string{"", "", " ", "\t"}[g.Pick(4)]
		trail := []string{"", "", " ", " \t"}[g.Pick(4)]
		return lead + name + seps[g.Pick(4)] + val + seps[g.Pick(4)] + ts + trail
	}
	return name + " " + val + " " + ts
}

func scenTable(x *Exec, prop string) {
	g := x.Gen
	cfg := SwarmConfig(g)
	p := tableRunPlan{Table: genTablePlan(g, prop)}
	if prop == "C03" && g.Bool(0.4) {
		// exercise the aggregation match cache over time: flush ticks, refreshes across seconds, expiry after 100*wait
		p.Timeful = true
		for i := range p.Table.Aggs {
			p.Table.Aggs[i].Interval = []uint{1, 5}[g.Pick(2)]
			p.Table.Aggs[i].Wait = []uint{1, 2}[g.Pick(2)]
		}
	}
	p.pre = cloneTP(&p.Table)
	if g.Bool(0.4) {
		var real []int
		for ri, r := range p.Table.Routes {
			if r.Type != "capture" {
				real = append(real, ri)
			}
		}
		for i, n := 0, 1+g.Intn(3); i < n && len(real) > 0; i++ {
			ri := real[g.Pick(len(real))]
			r := &p.Table.Routes[ri]
			op := c18Op{Kind: "modRoute", Key: r.Key, F: genFilter(g, 0.4)}
			for _, k := range filterKeys {
				if g.Bool(0.35) {
					op.Set = append(op.Set, k)
				}
			}
			if len(op.Set) == 0 {
				op.Set = []string{filterKeys[g.Pick(6)]}
			}
			if r.Type != "consistentHashing" && len(r.Dests) > 0 && g.Bool(0.5) {
				op.Kind, op.Idx = "modDest", g.Intn(len(r.Dests))
				r.Dests[op.Idx].F = mergeFilter(r.Dests[op.Idx].F, op.F, op.Set)
			} else {
				r.F = mergeFilter(r.F, op.F, op.Set)
			}
			p.Mods = append(p.Mods, op)
		}
	}
	nclients := 1 + g.Intn(3)
	p.NLines = 20 + g.Intn(180)
	if x.Case.Tier == "thorough" && g.Bool(0.2) {
		p.NLines = 200 + g.Intn(800)
	}
	lines := make([][]string, nclients)
	for i := 0; i < p.NLines; i++ {
		c := g.Pick(nclients)
		l := genLine(g, i, prop)
		// a rewriter list that empties the name yields a line no carbon consumer can parse; such
		// degenerate names are outside the properties' scope
		if v := RefDispatch(&p.Table, []byte(l), func(int, []byte) int { return 0 }); !v.Invalid && !v.Blacklisted && len(v.Name) == 0 {
			l = "onlyname"
		}
		lines[c] = append(lines[c], l)
	}
	for _, cl := range lines {
		h := cl
		if len(h) > 6 {
			h = h[:6]
		}
		p.Clients = append(p.Clients, h)
	}
	p.Via = "direct"
	x.Out.Sample = p
	cfg.Horizon = 3 * time.Hour
	cfg.MaxSteps = 3000000
	tp := &p.Table

	s := x.Bubble(cfg, func(s *simrt.Sim) {
		nc := simnet.DefaultConfig()
		nc.SockBuf = 1 << 20
		nw := simnet.NewNet(nc)
		simnet.Use(nw)
		var bt *builtTable
		var berr error
		started := false
		cond := simrt.NewCond()
		s.Spawn("relay-boot", "relay", "relay1", func() {
			initRelayGlobals()
			tableFlushMs = 20
			if p.Timeful {
				tableFlushMs = 2000 // long simulated runs: keep the number of timer events affordable
			}
			bt, berr = buildTable(s, nw, p.pre)
			if berr == nil {
				for _, op := range p.Mods {
					var err error
					if op.Kind == "modRoute" {
						err = bt.T.UpdateRoute(op.Key, filterOpts(op.F, op.Set))
					} else {
						err = bt.T.UpdateDestination(op.Key, op.Idx, filterOpts(op.F, op.Set))
					}
					if err != nil {
						s.Fail(prop+":update-rejected", "%+v was rejected: %v", op, err)
					}
					s.Probe("table.filter_changed_at_runtime")
				}
				bt.Plan = tp
			}
			simrt.Yield("boot")
			started = true
			cond.Broadcast()
		})
		cond.Wait(func() bool { return started }, time.Time{})
		if berr != nil {
			s.Infra("table construction failed: %v", berr)
			return
		}
		if s.Failed() {
			return
		}
		bt.waitOnline()
		// clients dispatch concurrently, each reusing one buffer and scribbling over it afterwards
		fin := 0
		mutated := ""
		for c := 0; c < nclients; c++ {
			c := c
			s.Spawn(fmt.Sprintf("client%d", c), "client", "harness", func() {
				buf := make([]byte, 0, 256)
				slept := time.Duration(0)
				for _, l := range lines[c] {
					buf = append(buf[:0], l...)
					before := append([]byte(nil), buf...)
					bt.T.Dispatch(buf)
					simrt.Yield("dispatched")
					if !bytes.Equal(buf, before) && mutated == "" {
						mutated = fmt.Sprintf("Dispatch modified the caller's buffer: %s -> %s", Short(before), Short(buf))
					}
					// the reader reuses its buffer as soon as the hand-off returns
					for i := range buf {
						buf[i] = 0xFF
					}
					if g.Bool(0.05) {
						simrt.Sleep(time.Duration(1+g.Intn(30)) * time.Millisecond)
					}
					if p.Timeful && slept < 20*time.Minute && g.Bool(0.15) {
						d := []time.Duration{1100 * time.Millisecond, 3 * time.Second, 120 * time.Second, 250 * time.Second}[g.Pick(4)]
						slept += d
						simrt.Sleep(d)
					}
				}
				fin++
				cond.Broadcast()
			})
		}
		cond.Wait(func() bool { return fin == nclients }, time.Time{})
		if mutated != "" {
			s.Fail(prop+":input-buffer-modified", "%s", mutated)
			return
		}
		// let flush periods pass and everything settle
		simrt.Sleep(300 * time.Millisecond)
		simrt.Quiesce()
		simrt.Sleep(200 * time.Millisecond)
		simrt.Quiesce()
		if p.Timeful {
			simrt.Sleep(7 * time.Second)
			simrt.Quiesce()
			s.Probe("table.timeful_run")
		}
		checkTableRun(x, s, prop, bt, lines, p.Timeful)
	})
	finishRun(x, s, prop)
}

// checkTableRun compares everything observable with the reference model.
func checkTableRun(x *Exec, s *simrt.Sim, prop string, bt *builtTable, lines [][]string, timeful bool) {
	// in timeful runs aggregations flush: their output (names starting with agg) is not modelled here (see C10/C11)
	isAgg := func(l string) bool { return timeful && strings.HasPrefix(l, "agg") }
	tp := bt.Plan
	wantCap := map[int][]string{}     // route index -> forwarded lines (multiset, as sorted list)
	wantDest := map[string][]string{} // dest addr -> forwarded lines
	wantAggIn := make([]int64, len(tp.Aggs))
	var nIn, nInvalid, nBlack, nUnroutable int64
	perClientCap := map[int][][]string{} // route -> per client expected sequence
	forwarded := 0
	for c, cl := range lines {
		for _, l := range cl {
			nIn++
			v := RefDispatch(tp, []byte(l), bt.ring)
			switch {
			case v.Invalid:
				nInvalid++
				continue
			case v.Blacklisted:
				nBlack++
				continue
			}
			for _, ai := range v.AggIn {
				wantAggIn[ai]++
			}
			if v.DroppedRaw {
				continue
			}
			if v.Unroutable {
				nUnroutable++
				continue
			}
			forwarded++
			for k, ri := range v.Routes {
				r := tp.Routes[ri]
				if r.Type == "capture" {
					wantCap[ri] = append(wantCap[ri], string(v.Final))
					if perClientCap[ri] == nil {
						perClientCap[ri] = make([][]string, len(lines))
					}
					perClientCap[ri][c] = append(perClientCap[ri][c], string(v.Final))
					continue
				}
				for _, di := range v.Dests[k] {
					a := r.Dests[di].Addr
					wantDest[a] = append(wantDest[a], string(v.Final))
				}
			}
		}
	}
	cmp := func(what string, got, want []string) bool {
		g2 := append([]string(nil), got...)
		w2 := append([]string(nil), want...)
		sort.Strings(g2)
		sort.Strings(w2)
		gi, wi := 0, 0
		for gi < len(g2) || wi < len(w2) {
			switch {
			case gi < len(g2) && wi < len(w2) && g2[gi] == w2[wi]:
				gi++
				wi++
			case wi == len(w2) || (gi < len(g2) && g2[gi] < w2[wi]):
				class := ":unexpected-delivery"
				if prop == "C04" {
					class = ":bytes"
				}
				s.Fail(prop+class, "%s received %q which the model does not send there (got %d lines, expected %d)", what, g2[gi], len(g2), len(w2))
				return false
			default:
				class := ":missing-delivery"
				if prop == "C04" {
					class = ":bytes"
				}
				s.Fail(prop+class, "%s did not receive %q (got %d lines, expected %d)", what, w2[wi], len(g2), len(w2))
				return false
			}
		}
		return true
	}
	// capture routes
	for ri, c := range bt.Caps {
		var got []string
		for _, call := range c.Calls {
			if !bytes.Equal(call.ref, call.copy) {
				s.Fail(prop+":altered-after-handoff", "route %s: the slice handed over as %s later read %s", c.key, Short(call.copy), Short(call.ref))
				return
			}
			if isAgg(string(call.copy)) {
				continue
			}
			got = append(got, string(call.copy))
		}
		if !cmp("capture route "+c.key+" "+fmt.Sprintf("%+v", tp.Routes[ri].F), got, wantCap[ri]) {
			return
		}
		// per client the order must be kept
		for ci, exp := range perClientCap[ri] {
			j := 0
			for _, gl := range got {
				if j < len(exp) && gl == exp[j] {
					j++
				}
			}
			_ = ci
			if j != len(exp) && len(lines) == 1 {
				s.Fail(prop+":order", "capture route %s saw the lines of the single client out of order", c.key)
				return
			}
		}
	}
	// real destinations
	var drops int64
	for ri, r := range tp.Routes {
		if r.Type == "capture" {
			continue
		}
		for _, d := range r.Dests {
			ep := bt.Eps[d.Addr]
			var got []string
			for _, ec := range ep.Conns {
				ls, tail := ec.Lines()
				if len(tail) != 0 {
					s.Fail(prop+":torn", "destination %s: stream ends with fragment %s", d.Addr, Short(tail))
					return
				}
				for _, l := range ls {
					if isAgg(string(l)) {
						continue
					}
					got = append(got, string(l))
				}
			}
			key := bt.DestCfg[d.Addr].key(r.Key)
			dd := counter("dest="+key+".unit=Metric.action=drop.reason=slow_conn") + counter("dest="+key+".unit=Metric.action=drop.reason=conn_down_no_spool")
			drops += dd
			if dd > 0 {
				s.Probe("table.dest_drops_inconclusive")
				continue
			}
			if !cmp(fmt.Sprintf("destination %s of %s route %s (route filter %+v, dest filter %+v)", d.Addr, r.Type, r.Key, r.F, d.F), got, wantDest[d.Addr]) {
				return
			}
			_ = ri
		}
	}
	// counters
	type cw struct {
		name string
		want int64
	}
	for _, c := range []cw{{"unit=Metric.direction=in", nIn}, {"unit=Err.type=invalid", nInvalid}, {"unit=Metric.direction=blacklist", nBlack}, {"unit=Metric.direction=unroutable", nUnroutable}} {
		if got := counter(c.name); got != c.want && !(timeful && c.name == "unit=Metric.direction=unroutable" && got > c.want) {
			s.Fail(prop+":counter", "counter %s is %d, the model says %d", c.name, got, c.want)
			return
		}
	}
	for ai, ag := range bt.Aggs {
		if got := counter("unit=Metric.direction=in.aggregator=" + ag.Key); got != wantAggIn[ai] {
			// several identical rules share one counter key
			same := int64(0)
			for aj, other := range bt.Aggs {
				if other.Key == ag.Key {
					same += wantAggIn[aj]
				}
			}
			if got != same {
				s.Fail(prop+":agg-match", "aggregation #%d %+v took in %d metrics, the model says %d", ai, tp.Aggs[ai], got, same)
				return
			}
		}
	}
	x.Out.Nontrivial = forwarded >= 5 && nBlack+nUnroutable+nInvalid > 0
	x.Out.StateSig = fmt.Sprintf("in=%d inv=%d bl=%d unr=%d fwd=%d routes=%d", nIn, nInvalid, nBlack, nUnroutable, forwarded, len(tp.Routes))
	if drops > 0 {
		s.Probe("table.runs_with_drops")
	}
}

// legacyBlacklistLine renders a filter with exactly one option as a line of the config file's blacklist array.
func (f FilterSpec) legacyBlacklistLine() (string, bool) {
	type kv struct{ k, v string }
	var set []kv
	for _, e := range []kv{{"prefix", f.Prefix}, {"notPrefix", f.NotPrefix}, {"sub", f.Sub}, {"notSub", f.NotSub}, {"regex", f.Regex}, {"notRegex", f.NotRegex}} {
		if e.v != "" {
			set = append(set, e)
		}
	}
	if len(set) != 1 || strings.ContainsAny(set[0].v, "\n") {
		return "", false
	}
	return set[0].k + " " + set[0].v, true
}

// unrelatedChurn adds and removes table entries that match no generated name (prefix "zzzz.never."): whatever else the table holds
// -- validation levels, order validation, the other entries -- must be exactly what it was afterwards.  kinds: black route rewriter agg.
func unrelatedChurn(t *table.Table, kinds []string) error {
	for _, k := range kinds {
		m, err := matcher.New("zzzz.never.", "", "", "", "", "")
		if err != nil {
			return err
		}
		switch k {
		case "black":
			t.AddBlacklist(&m)
			simrt.Yield("churn.added")
			snap := t.Snapshot()
			simrt.Yield("churn.snapshot")
			err = t.DelBlacklist(len(snap.Blacklist) - 1)
		case "route":
			t.AddRoute(&capRoute{key: "zzzz-churn", m: &m})
			simrt.Yield("churn.added")
			err = t.DelRoute("zzzz-churn")
		case "rewriter":
			rw, rerr := rewriter.New("zzzz.never.", "y", "", -1)
			if rerr != nil {
				return rerr
			}
			t.AddRewriter(rw)
			simrt.Yield("churn.added")
			snap := t.Snapshot()
			simrt.Yield("churn.snapshot")
			err = t.DelRewriter(len(snap.Rewriters) - 1)
		case "agg":
			am, merr := matcher.New("", "", "", "", `^zzzz\.never\.(.*)`, "")
			if merr != nil {
				return merr
			}
			a, aerr := aggregator.New("sum", am, "zzzz.out.$1", false, 60, 120, false, t.In)
			if aerr != nil {
				return aerr
			}
			t.AddAggregator(a)
			simrt.Yield("churn.added")
			snap := t.Snapshot()
			simrt.Yield("churn.snapshot")
			err = t.DelAggregator(len(snap.Aggregators) - 1)
		}
		simrt.Yield("churn.removed")
		if err != nil {
			return fmt.Errorf("removing the %s entry added a moment ago: %v", k, err)
		}
	}
	return nil
}

var churnKinds = []string{"black", "route", "rewriter", "agg"}
