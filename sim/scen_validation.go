package crsim

// C02: only valid metrics are forwarded; every rejection is counted and reported.
// The relay is booted from generated TOML text through the real config path, lines
// arrive over a real input listener (simnet) and the real Plain handler.

import (
	"fmt"
	"strings"
	"time"

	"crsim/simnet"
	"crsim/simrt"

	"github.com/grafana/carbon-relay-ng/aggregator"
	"github.com/grafana/carbon-relay-ng/input"
	"github.com/grafana/carbon-relay-ng/matcher"
	"github.com/grafana/carbon-relay-ng/table"
)

func init() { Register("C02", scenC02) }

type c02Plan struct {
	Legacy    string   `json:"validation_level_legacy"`
	M20       string   `json:"validation_level_m20"`
	MaxAgeS   int      `json:"bad_metrics_max_age_s"`
	Omit      string   `json:"omitted_options"`
	Blacklist string   `json:"blacklist_prefix"`
	Lines     []string `json:"lines_head"`
	N         int      `json:"lines"`
	Chunk     int      `json:"client_write_chunk"`

	Churn        []string `json:"unrelated_entries_added_and_removed,omitempty"`
	ChurnAfterUs int      `json:"churn_after_us,omitempty"`
}

var c02Names = []string{
	"a.b.c", "servers.web1.cpu", "a", "a.b;tag=v", "a.b;t1=x;t2=y", "host=web1.what=req.unit=B.mtype=gauge", "what=req.unit=B.mtype=count.host=a",
	"a=b.c=d", "unit=B.a=b", "host_is_web1.what_is_req.unit_is_B.mtype_is_gauge", "foo_is_bar.x", ".a.b", "a.b.", "a..b", "A.B-c_d", "a.b;tag=", "a.b;=v", "a.b;tag",
	"a\x00b.c", "\xe9t\xe9.b", "a b", "a.b;t=v;t=w", "a.b;t!=v", "a.b;tag=v;", "1.2.3", "a.b=c", "mtype=gauge.unit=B", "a,b", "a*b", "a/b", "a\tb",
}
var c02Vals = []string{"1", "0", "-1.5", "1e3", "+5", ".5", "0x1p-2", "nan", "NaN", "inf", "-Inf", "1e400", "--1", "1,5", "", "x", "1_0", "0x10", "1.", "1e", "١"}
var c02TS = []string{"1500000000", "0", "1", "4294967295", "4294967296", "1.5", "-1", "1e9", "x", "", "15000000000", "+5", "0x10"}

func genC02Line(g *simrt.Choices) string {
	name := c02Names[g.Pick(len(c02Names))]
	val := c02Vals[g.Pick(6)]
	ts := c02TS[g.Pick(2)]
	switch g.Pick(8) {
	case 0:
		val = c02Vals[g.Pick(len(c02Vals))]
	case 1:
		ts = c02TS[g.Pick(len(c02TS))]
	case 2:
		return name + " " + val // 2 fields
	case 3:
		return name + " " + val + " " + ts + " extra"
	case 4:
		return ""
	case 5:
		return strings.Repeat(" ", g.Intn(3)) + name + []string{"  ", "\t", " "}[g.Pick(3)] + val + " " + ts + strings.Repeat(" ", g.Intn(2))
	}
	return name + " " + val + " " + ts
}

func scenC02(x *Exec) {
	g := x.Gen
	cfg := SwarmConfig(g)
	p := c02Plan{}
	p.Legacy = []string{"medium", "strict", "none"}[g.Pick(3)]
	p.M20 = []string{"medium", "none"}[g.Pick(2)]
	p.MaxAgeS = []int{3600, 10, 60}[g.Pick(3)]
	omitL, omitM := g.Bool(0.15), g.Bool(0.15)
	if omitL {
		p.Omit += "legacy "
	}
	if omitM {
		p.Omit += "m20 "
	}
	if g.Bool(0.4) {
		p.Blacklist = []string{"servers.", "a.b", "host="}[g.Pick(3)]
	}
	p.N = 20 + g.Intn(150)
	var lines []string
	for i := 0; i < p.N; i++ {
		lines = append(lines, genC02Line(g))
	}
	p.Lines = lines
	if len(p.Lines) > 10 {
		p.Lines = p.Lines[:10]
	}
	p.Chunk = []int{0, 1, 7, 100}[g.Pick(4)]
	if g.Bool(0.4) {
		// meanwhile an administrator adds and removes entries that match none of these lines
		for i, n := 0, 1+g.Intn(3); i < n; i++ {
			p.Churn = append(p.Churn, churnKinds[g.Pick(len(churnKinds))])
		}
		p.ChurnAfterUs = g.Intn(400)
	}
	x.Out.Sample = p
	cfg.Horizon = 3 * time.Hour
	prop := "C02"

	toml := "instance = \"sim\"\nspool_dir = \"/spool\"\nlisten_addr = \"0.0.0.0:2003\"\n"
	toml += fmt.Sprintf("bad_metrics_max_age = \"%ds\"\n", p.MaxAgeS)
	legacy, m20 := p.Legacy, p.M20
	if omitL {
		legacy = "medium" // documented default
	} else {
		toml += fmt.Sprintf("validation_level_legacy = \"%s\"\n", p.Legacy)
	}
	if omitM {
		m20 = "medium"
	} else {
		toml += fmt.Sprintf("validation_level_m20 = \"%s\"\n", p.M20)
	}
	if p.Blacklist != "" {
		toml += fmt.Sprintf("blacklist = [ 'prefix %s' ]\n", p.Blacklist)
	}

	s := x.Bubble(cfg, func(s *simrt.Sim) {
		nw := simnet.NewNet(simnet.DefaultConfig())
		simnet.Use(nw)
		var tbl *table.Table
		var berr error
		var agg *aggregator.Aggregator
		capr := &capRoute{key: "cap"}
		started := false
		cond := simrt.NewCond()
		s.Spawn("relay-boot", "relay", "relay1", func() {
			initRelayGlobals()
			tbl, _, berr = bootFromTOML(toml)
			if berr == nil {
				m, _ := matcher.New("", "", "", "", ".", "")
				agg, berr = aggregator.New("count", m, "aggall", false, 60, 7200, false, tbl.In)
				if berr == nil {
					tbl.AddAggregator(agg)
					tbl.AddRoute(capr)
					l := input.NewListener("0.0.0.0:2003", 2*time.Minute, input.NewPlain(tbl))
					berr = l.Start()
				}
			}
			simrt.Yield("boot")
			started = true
			cond.Broadcast()
		})
		cond.Wait(func() bool { return started }, time.Time{})
		if berr != nil {
			s.Infra("boot failed: %v\n%s", berr, toml)
			return
		}
		// one client connection carries all lines, in order
		ra, _ := simnet.ResolveTCPAddr("tcp", "10.9.9.9:2003")
		c, err := nw.DialTCP(nil, ra)
		if err != nil {
			s.Infra("dial: %v", err)
			return
		}
		churnDone := len(p.Churn) == 0
		if !churnDone {
			s.Spawn("churn-admin", "admin", "relay1", func() {
				simrt.Sleep(time.Duration(p.ChurnAfterUs) * time.Microsecond)
				if err := unrelatedChurn(tbl, p.Churn); err != nil {
					s.Probe("churn.removal_failed: " + err.Error())
					s.Logf("churn: %v", err)
				}
				s.Probe("c02.unrelated_entries_added_and_removed")
				churnDone = true
				cond.Broadcast()
			})
		}
		payload := []byte(strings.Join(lines, "\n") + "\n")
		for len(payload) > 0 {
			n := len(payload)
			if p.Chunk > 0 && n > p.Chunk {
				n = p.Chunk
			}
			if _, err := c.Write(payload[:n]); err != nil {
				s.Infra("client write: %v", err)
				return
			}
			payload = payload[n:]
		}
		c.Close()
		cond.Wait(func() bool { return churnDone }, time.Now().Add(time.Minute))
		simrt.Sleep(100 * time.Millisecond)
		simrt.Quiesce()

		// model
		type rej struct{ msg, err string }
		lastRej := map[string]rej{}
		var wantFwd []string
		var nInvalid, nBlack int64
		for _, l := range lines {
			// the plain-text reader strips one trailing carriage return; lines here have none
			key, _, err := RefValid([]byte(l), legacy, m20)
			if err != nil {
				nInvalid++
				lastRej[string(key)] = rej{l, err.Error()}
				continue
			}
			f := strings.Fields(l)
			if p.Blacklist != "" && strings.HasPrefix(f[0], p.Blacklist) {
				nBlack++
				continue
			}
			wantFwd = append(wantFwd, f[0]+" "+f[1]+" "+f[2])
		}
		var got []string
		for _, call := range capr.Calls {
			got = append(got, string(call.copy))
		}
		if len(got) != len(wantFwd) {
			// find the first difference for the message
			i := 0
			for i < len(got) && i < len(wantFwd) && got[i] == wantFwd[i] {
				i++
			}
			var g1, w1 string
			if i < len(got) {
				g1 = got[i]
			}
			if i < len(wantFwd) {
				w1 = wantFwd[i]
			}
			s.Fail(prop+":gate", "levels legacy=%s m20=%s: %d lines were forwarded, validation says %d; first difference at #%d: forwarded %q, expected %q", legacy, m20, len(got), len(wantFwd), i, g1, w1)
			return
		}
		for i := range got {
			if got[i] != wantFwd[i] {
				s.Fail(prop+":gate", "levels legacy=%s m20=%s: forwarded line #%d is %q, expected %q", legacy, m20, i, got[i], wantFwd[i])
				return
			}
		}
		if c := counter("unit=Metric.direction=in"); c != int64(len(lines)) {
			s.Fail(prop+":in-counter", "direction=in counts %d for %d received lines", c, len(lines))
			return
		}
		if c := counter("unit=Err.type=invalid"); c != nInvalid {
			s.Fail(prop+":invalid-counter", "type=invalid counts %d, %d lines fail validation at legacy=%s m20=%s", c, nInvalid, legacy, m20)
			return
		}
		if c := counter("unit=Metric.direction=blacklist"); c != nBlack {
			s.Fail(prop+":blacklist-counter", "direction=blacklist counts %d, expected %d", c, nBlack)
			return
		}
		if c := counter("unit=Metric.direction=in.aggregator=" + agg.Key); c != int64(len(wantFwd)) {
			s.Fail(prop+":aggregator-saw-rejected", "the match-all aggregation took in %d lines, %d are valid and not blacklisted", c, len(wantFwd))
			return
		}
		// bad-metrics report: last rejected text and reason per name, while younger than max age
		recs := tbl.Bad().Get(24 * time.Hour)
		simrt.Yield("bad.get")
		gotRecs := map[string]rej{}
		for _, r := range recs {
			gotRecs[r.Metric] = rej{r.LastMsg, r.LastErr}
		}
		for k, w := range lastRej {
			gr, ok := gotRecs[k]
			if !ok {
				s.Fail(prop+":report-missing", "rejected metric %q (%q: %s) is not in the bad-metrics report", k, w.msg, w.err)
				return
			}
			if gr.msg != w.msg || gr.err != w.err {
				s.Fail(prop+":report-wrong", "bad-metrics record for %q is (%q, %q), expected last rejection (%q, %q)", k, gr.msg, gr.err, w.msg, w.err)
				return
			}
		}
		for k := range gotRecs {
			if _, ok := lastRej[k]; !ok {
				s.Fail(prop+":report-extra", "bad-metrics report lists %q which was never rejected", k)
				return
			}
		}
		// the records outlive half the max age and are gone some time after it
		maxAge := time.Duration(p.MaxAgeS) * time.Second
		if p.MaxAgeS <= 60 && len(lastRej) > 0 {
			simrt.Sleep(maxAge / 2)
			recs = tbl.Bad().Get(24 * time.Hour)
			simrt.Yield("bad.get")
			if len(recs) != len(lastRej) {
				s.Fail(prop+":report-expired-early", "after half of bad_metrics_max_age (%v) the report holds %d of %d records", maxAge, len(recs), len(lastRej))
				return
			}
			simrt.Sleep(maxAge/2 + maxAge/5 + time.Second)
			recs = tbl.Bad().Get(24 * time.Hour)
			simrt.Yield("bad.get")
			if len(recs) != 0 {
				s.Fail(prop+":report-not-expired", "%v after the rejections (max age %v) the report still holds %d records", maxAge+maxAge/5+time.Second, maxAge, len(recs))
				return
			}
			s.Probe("c02.expiry_checked")
		}
		x.Out.Nontrivial = nInvalid > 0 && len(wantFwd) > 0
		x.Out.StateSig = fmt.Sprintf("levels=%s/%s lines=%d invalid=%d fwd=%d black=%d names=%d", legacy, m20, len(lines), nInvalid, len(wantFwd), nBlack, len(lastRej))
	})
	finishRun(x, s, prop)
}
