// Package simhttp replaces net/http in route/grafananet.go (DESIGN.md 3.6): the
// client, request and response types are the real ones; Transport is a struct
// with the same exported fields whose RoundTrip talks to the scenario's
// scripted server instead of a socket.
package simhttp

import (
	"bytes"
	"context"
	"crypto/tls"
	"errors"
	"io/ioutil"
	"net"
	"net/http"
	"net/url"
	"sync"
	"time"

	"crsim/simrt"
)

type (
	Client       = http.Client
	Request      = http.Request
	Response     = http.Response
	RoundTripper = http.RoundTripper
	Header       = http.Header
)

// the parts of net/http's surface a client-side change to grafananet.go may plausibly reach for; everything that would open a
// real socket (DefaultClient, DefaultTransport, Get, Post, ListenAndServe) is deliberately absent, so that such a change fails
// to build (exit 2) instead of escaping the simulation
const (
	MethodGet    = http.MethodGet
	MethodPost   = http.MethodPost
	MethodPut    = http.MethodPut
	MethodDelete = http.MethodDelete
	MethodHead   = http.MethodHead

	StatusOK                  = http.StatusOK
	StatusCreated             = http.StatusCreated
	StatusAccepted            = http.StatusAccepted
	StatusNoContent           = http.StatusNoContent
	StatusMultipleChoices     = http.StatusMultipleChoices
	StatusBadRequest          = http.StatusBadRequest
	StatusUnauthorized        = http.StatusUnauthorized
	StatusForbidden           = http.StatusForbidden
	StatusNotFound            = http.StatusNotFound
	StatusRequestTimeout      = http.StatusRequestTimeout
	StatusTooManyRequests     = http.StatusTooManyRequests
	StatusInternalServerError = http.StatusInternalServerError
	StatusBadGateway          = http.StatusBadGateway
	StatusServiceUnavailable  = http.StatusServiceUnavailable
	StatusGatewayTimeout      = http.StatusGatewayTimeout
)

var (
	NewRequest            = http.NewRequest
	NewRequestWithContext = http.NewRequestWithContext
	StatusText            = http.StatusText
	ErrUseLastResponse    = http.ErrUseLastResponse
)

type Cookie = http.Cookie

//go:norace
func ProxyFromEnvironment(*http.Request) (*url.URL, error) { return nil, nil }

// Reply is what the scripted server decides for one request.
type Reply struct {
	Status int
	Body   string
	Err    error         // connection-level failure (reset)
	Delay  time.Duration // server think time
	Hang   bool          // never answer: only the client's timeout ends the request
	Stall  bool          // status line and headers arrive, then the body never does (reading it blocks until the request is cancelled)
}

// Server is the scripted remote end.
type Server interface {
	Serve(url string, header http.Header, body []byte) Reply
}

var (
	mu  sync.Mutex
	srv Server
)

// Use installs the server every Transport talks to.
//
//go:norace
func Use(s Server) { lk(&mu); srv = s; ul(&mu) }

type Transport struct {
	Proxy                 func(*http.Request) (*url.URL, error)
	DialContext           func(ctx context.Context, network, addr string) (net.Conn, error)
	MaxIdleConns          int
	MaxIdleConnsPerHost   int
	IdleConnTimeout       time.Duration
	TLSHandshakeTimeout   time.Duration
	ExpectContinueTimeout time.Duration
	ResponseHeaderTimeout time.Duration
	TLSNextProto          map[string]func(authority string, c *tls.Conn) http.RoundTripper
	TLSClientConfig       *tls.Config
}

var ErrReset = errors.New("read tcp: connection reset by peer")

//go:norace
func (t *Transport) RoundTrip(req *http.Request) (*http.Response, error) {
	simrt.Yield("simhttp.roundtrip")
	// like the real transport: a request whose context is already done is not sent at all
	select {
	case <-req.Context().Done():
		if req.Body != nil {
			req.Body.Close()
		}
		simrt.Probe("http.context_done_before_send")
		return nil, req.Context().Err()
	default:
	}
	var body []byte
	if req.Body != nil {
		body, _ = ioutil.ReadAll(req.Body)
		req.Body.Close()
	}
	lk(&mu)
	s := srv
	ul(&mu)
	if s == nil {
		return nil, errors.New("simhttp: no server")
	}
	rep := s.Serve(req.URL.String(), req.Header, body)
	ctx := req.Context()
	// like the real transport: waiting for the response headers is bounded by ResponseHeaderTimeout (if set) and by the request's
	// context (which is how http.Client.Timeout arrives); reading the body is bounded by the context only
	var hdr <-chan time.Time
	if t.ResponseHeaderTimeout > 0 {
		tm := time.NewTimer(t.ResponseHeaderTimeout)
		defer tm.Stop()
		hdr = tm.C
	}
	if rep.Hang {
		simrt.Probe("http.hang")
		select {
		case <-ctx.Done():
			simrt.Yield("simhttp.hang")
			return nil, ctx.Err()
		case <-hdr:
			simrt.Yield("simhttp.hang.hdr")
			return nil, errors.New("net/http: timeout awaiting response headers")
		}
	}
	if rep.Delay > 0 {
		tm := time.NewTimer(rep.Delay)
		select {
		case <-tm.C:
			simrt.Yield("simhttp.delay")
		case <-ctx.Done():
			tm.Stop()
			simrt.Yield("simhttp.delay.cancel")
			return nil, ctx.Err()
		}
	}
	if rep.Err != nil {
		return nil, rep.Err
	}
	if rep.Stall {
		simrt.Probe("http.stalled_body")
		return &http.Response{Status: http.StatusText(rep.Status), StatusCode: rep.Status, Proto: "HTTP/1.1", ProtoMajor: 1, ProtoMinor: 1,
			Header: http.Header{}, Body: &stalledBody{ctx: ctx}, ContentLength: -1, Request: req}, nil
	}
	return &http.Response{Status: http.StatusText(rep.Status), StatusCode: rep.Status, Proto: "HTTP/1.1", ProtoMajor: 1, ProtoMinor: 1,
		Header: http.Header{}, Body: ioutil.NopCloser(bytes.NewReader([]byte(rep.Body))), ContentLength: int64(len(rep.Body)), Request: req}, nil
}

// lk/ul bracket the device's own critical sections; in a race build they are invisible to the race detector (simrt.SyncOff),
// like the kernel's locks would be: a device must not order the tasks that use it.
//
//go:norace
func lk(m *sync.Mutex) { simrt.SyncOff(); m.Lock() }

//go:norace
func ul(m *sync.Mutex) { m.Unlock(); simrt.SyncOn() }

// stalledBody is a response body that never arrives: Read blocks until the request's context is done.
type stalledBody struct{ ctx context.Context }

//go:norace
func (b *stalledBody) Read(p []byte) (int, error) {
	<-b.ctx.Done()
	simrt.Yield("simhttp.stalled")
	return 0, b.ctx.Err()
}

//go:norace
func (b *stalledBody) Close() error { return nil }
