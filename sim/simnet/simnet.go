// Package simnet is the TCP/UDP stack the instrumented relay sees instead of
// package net (DESIGN.md 3.4).  Connections are pairs of bounded byte queues;
// every blocking point is a scheduling point, and what real deployments meet
// on a socket (refused dials, black holes, stalled readers, segmentation,
// FIN/RST races, resets, read deadlines) is injected from the run's choice
// stream.
package simnet

import (
	"context"
	"errors"
	"fmt"
	"io"
	"net"
	"strconv"
	"strings"
	"sync"
	"time"

	"crsim/simrt"
)

type (
	Conn     = net.Conn
	Addr     = net.Addr
	Listener = net.Listener
	Error    = net.Error
)

// Dialer only exists so that route/grafananet.go compiles; simhttp never dials.
type Dialer struct {
	Timeout   time.Duration
	KeepAlive time.Duration
	DualStack bool
}

//go:norace
func (d *Dialer) DialContext(ctx context.Context, network, address string) (Conn, error) {
	return nil, errors.New("simnet: Dialer.DialContext is not simulated")
}

type TCPAddr struct {
	Host string
	Port int
}

//go:norace
func (a *TCPAddr) Network() string { return "tcp" }

//go:norace
func (a *TCPAddr) String() string {
	if a == nil {
		return "<nil>"
	}
	return a.Host + ":" + strconv.Itoa(a.Port)
}

type UDPAddr struct {
	Host string
	Port int
}

//go:norace
func (a *UDPAddr) Network() string { return "udp" }

//go:norace
func (a *UDPAddr) String() string {
	if a == nil {
		return "<nil>"
	}
	return a.Host + ":" + strconv.Itoa(a.Port)
}

type opError struct {
	op      string
	msg     string
	timeout bool
}

//go:norace
func (e *opError) Error() string { return e.op + ": " + e.msg }

//go:norace
func (e *opError) Timeout() bool { return e.timeout }

//go:norace
func (e *opError) Temporary() bool { return e.timeout }

var (
	errClosed       = &opError{"use", "use of closed network connection", false}
	errRefused      = &opError{"dial", "connection refused", false}
	errReset        = &opError{"read", "connection reset by peer", false}
	errPipe         = &opError{"write", "broken pipe", false}
	errTimeout      = &opError{"read", "i/o timeout", true}
	errWriteTimeout = &opError{"write", "i/o timeout", true}
)

//go:norace
func splitHostPort(addr string) (string, int, error) {
	i := strings.LastIndex(addr, ":")
	if i < 0 {
		return "", 0, &opError{"resolve", "address " + addr + ": missing port in address", false}
	}
	host, ps := addr[:i], addr[i+1:]
	if strings.Contains(host, ":") {
		return "", 0, &opError{"resolve", "address " + addr + ": too many colons in address", false}
	}
	p, err := strconv.Atoi(ps)
	if err != nil || p < 0 || p > 65535 {
		return "", 0, &opError{"resolve", "address " + addr + ": invalid port", false}
	}
	if host == "" {
		host = "0.0.0.0"
	}
	return host, p, nil
}

//go:norace
func ResolveTCPAddr(network, addr string) (*TCPAddr, error) {
	h, p, err := splitHostPort(addr)
	if err != nil {
		return nil, err
	}
	return &TCPAddr{h, p}, nil
}

//go:norace
func ResolveUDPAddr(network, addr string) (*UDPAddr, error) {
	h, p, err := splitHostPort(addr)
	if err != nil {
		return nil, err
	}
	return &UDPAddr{h, p}, nil
}

// Config are the per-run network knobs (drawn by the scenario from the plan stream).
type Config struct {
	SockBuf         int     // capacity of each direction's queue in bytes
	MaxReadChunk    int     // Read returns at most this many bytes (0 = unlimited)
	ChunkP          float64 // probability that a Read is cut short at a random point
	MaxGrace        int     // writes that still "succeed" after the peer closed (FIN/RST race), drawn in [0,MaxGrace]
	EOFWithData     float64 // probability that the last data is returned together with io.EOF
	TimeoutWithData float64 // probability that a Read with a deadline returns data together with a timeout error (legal for io.Reader)
	RefuseDelay     time.Duration
}

//go:norace
func DefaultConfig() Config {
	return Config{SockBuf: 64 << 10, MaxReadChunk: 0, ChunkP: 0.3, MaxGrace: 2, EOFWithData: 0.2, RefuseDelay: time.Millisecond}
}

// Net is one simulated network.
type Net struct {
	mu        sync.Mutex
	Cfg       Config
	listeners map[string]*TCPListener
	udp       map[string]*UDPConn
	blackhole map[string]bool
	cond      *simrt.Cond
	nextPort  int
	nextID    int
	Count     map[string]int
	Conns     []*TCPConn
}

//go:norace
func NewNet(cfg Config) *Net {
	return &Net{Cfg: cfg, listeners: map[string]*TCPListener{}, udp: map[string]*UDPConn{}, blackhole: map[string]bool{},
		cond: simrt.NewDevCond(), nextPort: 40000, Count: map[string]int{}}
}

var (
	curMu sync.Mutex
	cur   = NewNet(DefaultConfig())
)

//go:norace
func Use(n *Net) { lk(&curMu); cur = n; ul(&curMu) }

//go:norace
func Cur() *Net { lk(&curMu); defer ul(&curMu); return cur }

//go:norace
func (n *Net) count(k string) {
	lk(&n.mu)
	n.Count[k]++
	ul(&n.mu)
	simrt.Probe("net." + k)
}

//go:norace
func choices() *simrt.Choices {
	if s := simrt.Active(); s != nil {
		return s.Sched
	}
	return nil
}

// SetBlackhole makes dials to addr hang (SYNs silently dropped) until cleared.
//
//go:norace
func (n *Net) SetBlackhole(addr string, on bool) {
	lk(&n.mu)
	if on {
		n.blackhole[addr] = true
	} else {
		delete(n.blackhole, addr)
	}
	ul(&n.mu)
	n.cond.Broadcast()
}

// ---- TCP ----

type TCPListener struct {
	n      *Net
	addr   *TCPAddr
	queue  []*TCPConn
	closed bool
}

//go:norace
func key(host string, port int) string { return host + ":" + strconv.Itoa(port) }

//go:norace
func (n *Net) lookup(a *TCPAddr) *TCPListener {
	if l, ok := n.listeners[key(a.Host, a.Port)]; ok {
		return l
	}
	// a wildcard listener belongs to the relay host itself, which the harness reaches as 10.9.9.9 / loopback
	if a.Host == "10.9.9.9" || a.Host == "127.0.0.1" || a.Host == "localhost" || a.Host == "0.0.0.0" {
		if l, ok := n.listeners[key("0.0.0.0", a.Port)]; ok {
			return l
		}
	}
	return nil
}

//go:norace
func ListenTCP(network string, laddr *TCPAddr) (*TCPListener, error) { return Cur().ListenTCP(laddr) }

//go:norace
func (n *Net) ListenTCP(laddr *TCPAddr) (*TCPListener, error) {
	if laddr == nil {
		return nil, &opError{"listen", "missing address", false}
	}
	lk(&n.mu)
	defer ul(&n.mu)
	a := *laddr
	if a.Port == 0 {
		n.nextPort++
		a.Port = n.nextPort
	}
	k := key(a.Host, a.Port)
	if _, ok := n.listeners[k]; ok {
		return nil, &opError{"listen", "address already in use", false}
	}
	l := &TCPListener{n: n, addr: &a}
	n.listeners[k] = l
	return l, nil
}

// Listen is net.Listen for "tcp".
//
//go:norace
func Listen(network, addr string) (Listener, error) {
	a, err := ResolveTCPAddr(network, addr)
	if err != nil {
		return nil, err
	}
	return ListenTCP(network, a)
}

//go:norace
func (l *TCPListener) Addr() Addr { return l.addr }

//go:norace
func (l *TCPListener) AcceptTCP() (*TCPConn, error) {
	var c *TCPConn
	l.n.cond.Wait(func() bool {
		lk(&l.n.mu)
		defer ul(&l.n.mu)
		if l.closed {
			return true
		}
		if len(l.queue) > 0 {
			c = l.queue[0]
			l.queue = l.queue[1:]
			return true
		}
		return false
	}, time.Time{})
	if c == nil {
		return nil, errClosed
	}
	return c, nil
}

//go:norace
func (l *TCPListener) Accept() (Conn, error) {
	c, err := l.AcceptTCP()
	if err != nil {
		return nil, err
	}
	return c, nil
}

//go:norace
func (l *TCPListener) Close() error {
	lk(&l.n.mu)
	if l.closed {
		ul(&l.n.mu)
		return errClosed
	}
	l.closed = true
	delete(l.n.listeners, key(l.addr.Host, l.addr.Port))
	pending := l.queue
	l.queue = nil
	ul(&l.n.mu)
	for _, c := range pending {
		c.Reset() // never accepted: the dialer sees a reset
	}
	l.n.cond.Broadcast()
	return nil
}

type TCPConn struct {
	n            *Net
	ID           int
	local        *TCPAddr
	remote       *TCPAddr
	peer         *TCPConn
	cond         *simrt.Cond // shared by both ends
	mu           *sync.Mutex // shared by both ends
	in           []byte      // received, not yet read
	inCap        int
	finRecv      bool // peer closed its side
	rst          bool
	closed       bool
	rdl          time.Time
	wdl          time.Time
	grace        int
	BytesWritten int64
	BytesRead    int64
	Writes       int
	ServerSide   bool
}

//go:norace
func DialTCP(network string, laddr, raddr *TCPAddr) (*TCPConn, error) {
	return Cur().DialTCP(laddr, raddr)
}

//go:norace
func (n *Net) DialTCP(laddr, raddr *TCPAddr) (*TCPConn, error) {
	if raddr == nil {
		return nil, &opError{"dial", "missing address", false}
	}
	k := key(raddr.Host, raddr.Port)
	// a black-holed address: the dial hangs until the fault heals
	lk(&n.mu)
	bh := n.blackhole[k]
	ul(&n.mu)
	if bh {
		n.count("dial_blackholed")
		n.cond.Wait(func() bool { lk(&n.mu); defer ul(&n.mu); return !n.blackhole[k] }, time.Time{})
	}
	lk(&n.mu)
	l := n.lookup(raddr)
	if l == nil || l.closed {
		d := n.Cfg.RefuseDelay
		ul(&n.mu)
		n.count("dial_refused")
		if d > 0 {
			simrt.Sleep(d)
		}
		return nil, errRefused
	}
	n.nextPort++
	n.nextID++
	id := n.nextID
	cl := &TCPAddr{"10.0.0.1", n.nextPort}
	if laddr != nil && laddr.Host != "" && laddr.Host != "0.0.0.0" {
		cl.Host = laddr.Host
	}
	shared := simrt.NewDevCond()
	mu := &sync.Mutex{}
	grace := 0
	if c := choices(); c != nil && n.Cfg.MaxGrace > 0 {
		ul(&n.mu)
		grace = c.Range(0, n.Cfg.MaxGrace)
		lk(&n.mu)
	}
	a := &TCPConn{n: n, ID: id, local: cl, remote: raddr, cond: shared, mu: mu, inCap: n.Cfg.SockBuf, grace: grace}
	b := &TCPConn{n: n, ID: id, local: raddr, remote: cl, cond: shared, mu: mu, inCap: n.Cfg.SockBuf, grace: grace, ServerSide: true}
	a.peer, b.peer = b, a
	l.queue = append(l.queue, b)
	n.Conns = append(n.Conns, a)
	ul(&n.mu)
	n.count("dial_ok")
	n.cond.Broadcast()
	return a, nil
}

//go:norace
func (c *TCPConn) LocalAddr() Addr { return c.local }

//go:norace
func (c *TCPConn) RemoteAddr() Addr { return c.remote }

//go:norace
func (c *TCPConn) SetDeadline(t time.Time) error {
	if err := c.SetReadDeadline(t); err != nil {
		return err
	}
	return c.SetWriteDeadline(t)
}

// SetWriteDeadline: a Write that is still blocked on the peer's full receive queue at t returns what it has written so far and a
// timeout error, like the kernel's.
//
//go:norace
func (c *TCPConn) SetWriteDeadline(t time.Time) error {
	lk(c.mu)
	defer ul(c.mu)
	if c.closed {
		return errClosed
	}
	c.wdl = t
	return nil
}

//go:norace
func (c *TCPConn) SetReadDeadline(t time.Time) error {
	lk(c.mu)
	defer ul(c.mu)
	if c.closed {
		return errClosed
	}
	c.rdl = t
	return nil
}

// Read returns what the network decided to deliver: possibly less than what is
// available (segmentation), possibly together with io.EOF.
//
//go:norace
func (c *TCPConn) Read(p []byte) (int, error) {
	var err error
	ready := func() bool {
		lk(c.mu)
		defer ul(c.mu)
		switch {
		case c.closed:
			err = errClosed
		case c.rst:
			err = errReset
		case len(c.in) > 0:
			err = nil
		case c.finRecv:
			err = io.EOF
		default:
			return false
		}
		return true
	}
	lk(c.mu)
	dl := c.rdl
	ul(c.mu)
	if !c.cond.Wait(ready, dl) {
		c.n.count("read_deadline")
		return 0, errTimeout
	}
	if err != nil {
		return 0, err
	}
	if len(p) == 0 {
		return 0, nil
	}
	lk(c.mu)
	n := len(c.in)
	if n > len(p) {
		n = len(p)
	}
	cfg := c.n.Cfg
	ul(c.mu)
	if cfg.MaxReadChunk > 0 && n > cfg.MaxReadChunk {
		n = cfg.MaxReadChunk
	}
	ch := choices()
	if ch != nil && n > 1 && cfg.ChunkP > 0 && ch.Bool(cfg.ChunkP) {
		n = 1 + ch.Intn(n-1)
		c.n.count("read_cut_short")
	}
	lk(c.mu)
	copy(p, c.in[:n])
	c.in = c.in[n:]
	if len(c.in) == 0 {
		c.in = nil
	}
	c.BytesRead += int64(n)
	last := len(c.in) == 0 && c.finRecv
	ul(c.mu)
	simrt.Progress()   // bytes moved: a reader that never has to wait (64 KiB lines, one byte per read) is not spinning
	c.cond.Broadcast() // room for a blocked writer
	if last && ch != nil && cfg.EOFWithData > 0 && ch.Bool(cfg.EOFWithData) {
		c.n.count("read_data_with_eof")
		return n, io.EOF
	}
	if !dl.IsZero() && ch != nil && cfg.TimeoutWithData > 0 && ch.Bool(cfg.TimeoutWithData) {
		c.n.count("read_data_with_timeout")
		return n, errTimeout
	}
	return n, nil
}

// Write blocks while the peer's receive queue is full.
//
//go:norace
func (c *TCPConn) Write(p []byte) (int, error) {
	written := 0
	lk(c.mu)
	c.Writes++
	ul(c.mu)
	for {
		var err error
		var done bool
		ok := func() bool {
			lk(c.mu)
			defer ul(c.mu)
			pe := c.peer
			switch {
			case c.closed:
				err = errClosed
				return true
			case c.rst:
				err = errPipe
				return true
			case pe.closed:
				// the peer is gone: the kernel still takes a few writes before the RST is seen
				if c.grace > 0 {
					c.grace--
					written = len(p)
					done = true
					return true
				}
				c.rst = true
				err = errPipe
				return true
			}
			room := pe.inCap - len(pe.in)
			if room <= 0 {
				return false
			}
			n := len(p) - written
			if n > room {
				n = room
			}
			pe.in = append(pe.in, p[written:written+n]...)
			simrt.Progress()
			written += n
			c.BytesWritten += int64(n)
			if written == len(p) {
				done = true
			}
			return true
		}
		lk(c.mu)
		wdl := c.wdl
		ul(c.mu)
		if !c.cond.Wait(ok, wdl) {
			c.n.count("write_deadline")
			return written, errWriteTimeout
		}
		if err != nil {
			c.n.count("write_error")
			return written, err
		}
		c.cond.Broadcast()
		if done {
			return written, nil
		}
		c.n.count("write_blocked_on_full_buffer")
	}
}

// Close is an orderly close: the peer reads what is queued and then EOF.
//
//go:norace
func (c *TCPConn) Close() error {
	lk(c.mu)
	if c.closed {
		ul(c.mu)
		return errClosed
	}
	c.closed = true
	unread := len(c.in) > 0
	c.in = nil
	c.peer.finRecv = true
	if unread {
		// closing with unread data makes the kernel answer with RST
		c.peer.rst = true
	}
	ul(c.mu)
	c.cond.Broadcast()
	return nil
}

// CloseWrite half-closes.
//
//go:norace
func (c *TCPConn) CloseWrite() error {
	lk(c.mu)
	c.peer.finRecv = true
	ul(c.mu)
	c.cond.Broadcast()
	return nil
}

// Reset aborts the connection: both directions fail from now on.
//
//go:norace
func (c *TCPConn) Reset() {
	lk(c.mu)
	c.rst = true
	c.peer.rst = true
	c.peer.finRecv = true
	ul(c.mu)
	c.n.count("conn_reset")
	c.cond.Broadcast()
}

// Buffered returns the number of bytes queued towards this end.
//
//go:norace
func (c *TCPConn) Buffered() int { lk(c.mu); defer ul(c.mu); return len(c.in) }

// SetInCap changes the receive queue capacity of this end.
//
//go:norace
func (c *TCPConn) SetInCap(n int) { lk(c.mu); c.inCap = n; ul(c.mu); c.cond.Broadcast() }

// Peer returns the other end (harness use).
//
//go:norace
func (c *TCPConn) Peer() *TCPConn { return c.peer }

//go:norace
func (c *TCPConn) String() string { return fmt.Sprintf("conn%d(%v->%v)", c.ID, c.local, c.remote) }

// ---- UDP ----

type datagram struct {
	b    []byte
	from *UDPAddr
}

type UDPConn struct {
	n      *Net
	addr   *UDPAddr
	q      []datagram
	closed bool
}

//go:norace
func ListenUDP(network string, laddr *UDPAddr) (*UDPConn, error) { return Cur().ListenUDP(laddr) }

//go:norace
func (n *Net) ListenUDP(laddr *UDPAddr) (*UDPConn, error) {
	if laddr == nil {
		return nil, &opError{"listen", "missing address", false}
	}
	lk(&n.mu)
	defer ul(&n.mu)
	k := key(laddr.Host, laddr.Port)
	if _, ok := n.udp[k]; ok {
		return nil, &opError{"listen", "address already in use", false}
	}
	u := &UDPConn{n: n, addr: laddr}
	n.udp[k] = u
	return u, nil
}

// SendUDP delivers one datagram to the socket bound to addr (harness use).
//
//go:norace
func (n *Net) SendUDP(addr string, payload []byte) bool {
	h, p, err := splitHostPort(addr)
	if err != nil {
		return false
	}
	lk(&n.mu)
	u := n.udp[key(h, p)]
	if u == nil {
		u = n.udp[key("0.0.0.0", p)]
	}
	if u == nil || u.closed {
		ul(&n.mu)
		return false
	}
	u.q = append(u.q, datagram{append([]byte(nil), payload...), &UDPAddr{"10.0.0.9", 5555}})
	ul(&n.mu)
	n.cond.Broadcast()
	return true
}

//go:norace
func (u *UDPConn) ReadFrom(b []byte) (int, Addr, error) {
	var d *datagram
	u.n.cond.Wait(func() bool {
		lk(&u.n.mu)
		defer ul(&u.n.mu)
		if u.closed {
			return true
		}
		if len(u.q) > 0 {
			x := u.q[0]
			u.q = u.q[1:]
			d = &x
			return true
		}
		return false
	}, time.Time{})
	if d == nil {
		return 0, nil, errClosed
	}
	n := copy(b, d.b)
	return n, d.from, nil
}

//go:norace
func (u *UDPConn) Close() error {
	lk(&u.n.mu)
	if u.closed {
		ul(&u.n.mu)
		return errClosed
	}
	u.closed = true
	delete(u.n.udp, key(u.addr.Host, u.addr.Port))
	ul(&u.n.mu)
	u.n.cond.Broadcast()
	return nil
}

//go:norace
func (u *UDPConn) LocalAddr() Addr { return u.addr }

// lk/ul bracket the device's own critical sections; in a race build they are invisible to the race detector (simrt.SyncOff),
// like the kernel's locks would be: a device must not order the tasks that use it.
//
//go:norace
func lk(m *sync.Mutex) { simrt.SyncOff(); m.Lock() }

//go:norace
func ul(m *sync.Mutex) { m.Unlock(); simrt.SyncOn() }
