// Package simnet is the TCP/UDP stack the instrumented relay sees instead of
// package net (DESIGN.md 3.4).  Connections are pairs of bounded byte queues;
// every blocking point is a scheduling point, and what real deployments meet
// on a socket (refused dials, black holes, stalled readers, segmentation,
// FIN/RST races, resets, read deadlines) is injected from the run's choice
// stream.
package simnet

import (
	"context"
	"errors"
	"fmt"
	"io"
	"net"
	"strconv"
	"strings"
	"sync"
	"time"

	"crsim/simrt"
)

type (
	Conn     = net.Conn
	Addr     = net.Addr
	Listener = net.Listener
	Error    = net.Error
)

// Dialer only exists so that route/grafananet.go compiles; simhttp never dials.
type Dialer struct {
	Timeout   time.Duration
	KeepAlive time.Duration
	DualStack bool
}

func (d *Dialer) DialContext(ctx context.Context, network, address string) (Conn, error) {
	return nil, errors.New("simnet: Dialer.DialContext is not simulated")
}

type TCPAddr struct {
	Host string
	Port int
}

func (a *TCPAddr) Network() string { return "tcp" }
func (a *TCPAddr) String() string {
	if a == nil {
		return "<nil>"
	}
	return a.Host + ":" + strconv.Itoa(a.Port)
}

type UDPAddr struct {
	Host string
	Port int
}

func (a *UDPAddr) Network() string { return "udp" }
func (a *UDPAddr) String() string {
	if a == nil {
		return "<nil>"
	}
	return a.Host + ":" + strconv.Itoa(a.Port)
}

type opError struct {
	op      string
	msg     string
	timeout bool
}

func (e *opError) Error() string   { return e.op + ": " + e.msg }
func (e *opError) Timeout() bool   { return e.timeout }
func (e *opError) Temporary() bool { return e.timeout }

var (
	errClosed  = &opError{"use", "use of closed network connection", false}
	errRefused = &opError{"dial", "connection refused", false}
	errReset   = &opError{"read", "connection reset by peer", false}
	errPipe    = &opError{"write", "broken pipe", false}
	errTimeout = &opError{"read", "i/o timeout", true}
)

func splitHostPort(addr string) (string, int, error) {
	i := strings.LastIndex(addr, ":")
	if i < 0 {
		return "", 0, &opError{"resolve", "address " + addr + ": missing port in address", false}
	}
	host, ps := addr[:i], addr[i+1:]
	if strings.Contains(host, ":") {
		return "", 0, &opError{"resolve", "address " + addr + ": too many colons in address", false}
	}
	p, err := strconv.Atoi(ps)
	if err != nil || p < 0 || p > 65535 {
		return "", 0, &opError{"resolve", "address " + addr + ": invalid port", false}
	}
	if host == "" {
		host = "0.0.0.0"
	}
	return host, p, nil
}

func ResolveTCPAddr(network, addr string) (*TCPAddr, error) {
	h, p, err := splitHostPort(addr)
	if err != nil {
		return nil, err
	}
	return &TCPAddr{h, p}, nil
}

func ResolveUDPAddr(network, addr string) (*UDPAddr, error) {
	h, p, err := splitHostPort(addr)
	if err != nil {
		return nil, err
	}
	return &UDPAddr{h, p}, nil
}

// Config are the per-run network knobs (drawn by the scenario from the plan stream).
type Config struct {
	SockBuf         int     // capacity of each direction's queue in bytes
	MaxReadChunk    int     // Read returns at most this many bytes (0 = unlimited)
	ChunkP          float64 // probability that a Read is cut short at a random point
	MaxGrace        int     // writes that still "succeed" after the peer closed (FIN/RST race), drawn in [0,MaxGrace]
	EOFWithData     float64 // probability that the last data is returned together with io.EOF
	TimeoutWithData float64 // probability that a Read with a deadline returns data together with a timeout error (legal for io.Reader)
	RefuseDelay     time.Duration
}

func DefaultConfig() Config {
	return Config{SockBuf: 64 << 10, MaxReadChunk: 0, ChunkP: 0.3, MaxGrace: 2, EOFWithData: 0.2, RefuseDelay: time.Millisecond}
}

// Net is one simulated network.
type Net struct {
	mu        sync.Mutex
	Cfg       Config
	listeners map[string]*TCPListener
	udp       map[string]*UDPConn
	blackhole map[string]bool
	cond      *simrt.Cond
	nextPort  int
	nextID    int
	Count     map[string]int
	Conns     []*TCPConn
}

func NewNet(cfg Config) *Net {
	return &Net{Cfg: cfg, listeners: map[string]*TCPListener{}, udp: map[string]*UDPConn{}, blackhole: map[string]bool{},
		cond: simrt.NewCond(), nextPort: 40000, Count: map[string]int{}}
}

var (
	curMu sync.Mutex
	cur   = NewNet(DefaultConfig())
)

func Use(n *Net) { curMu.Lock(); cur = n; curMu.Unlock() }
func Cur() *Net  { curMu.Lock(); defer curMu.Unlock(); return cur }

func (n *Net) count(k string) {
	n.mu.Lock()
	n.Count[k]++
	n.mu.Unlock()
	simrt.Probe("net." + k)
}

func choices() *simrt.Choices {
	if s := simrt.Active(); s != nil {
		return s.Sched
	}
	return nil
}

// SetBlackhole makes dials to addr hang (SYNs silently dropped) until cleared.
func (n *Net) SetBlackhole(addr string, on bool) {
	n.mu.Lock()
	if on {
		n.blackhole[addr] = true
	} else {
		delete(n.blackhole, addr)
	}
	n.mu.Unlock()
	n.cond.Broadcast()
}

// ---- TCP ----

type TCPListener struct {
	n      *Net
	addr   *TCPAddr
	queue  []*TCPConn
	closed bool
}

func key(host string, port int) string { return host + ":" + strconv.Itoa(port) }

func (n *Net) lookup(a *TCPAddr) *TCPListener {
	if l, ok := n.listeners[key(a.Host, a.Port)]; ok {
		return l
	}
	// a wildcard listener belongs to the relay host itself, which the harness reaches as 10.9.9.9 / loopback
	if a.Host == "10.9.9.9" || a.Host == "127.0.0.1" || a.Host == "localhost" || a.Host == "0.0.0.0" {
		if l, ok := n.listeners[key("0.0.0.0", a.Port)]; ok {
			return l
		}
	}
	return nil
}

func ListenTCP(network string, laddr *TCPAddr) (*TCPListener, error) { return Cur().ListenTCP(laddr) }

func (n *Net) ListenTCP(laddr *TCPAddr) (*TCPListener, error) {
	if laddr == nil {
		return nil, &opError{"listen", "missing address", false}
	}
	n.mu.Lock()
	defer n.mu.Unlock()
	a := *laddr
	if a.Port == 0 {
		n.nextPort++
		a.Port = n.nextPort
	}
	k := key(a.Host, a.Port)
	if _, ok := n.listeners[k]; ok {
		return nil, &opError{"listen", "address already in use", false}
	}
	l := &TCPListener{n: n, addr: &a}
	n.listeners[k] = l
	return l, nil
}

// Listen is net.Listen for "tcp".
func Listen(network, addr string) (Listener, error) {
	a, err := ResolveTCPAddr(network, addr)
	if err != nil {
		return nil, err
	}
	return ListenTCP(network, a)
}

func (l *TCPListener) Addr() Addr { return l.addr }

func (l *TCPListener) AcceptTCP() (*TCPConn, error) {
	var c *TCPConn
	l.n.cond.Wait(func() bool {
		l.n.mu.Lock()
		defer l.n.mu.Unlock()
		if l.closed {
			return true
		}
		if len(l.queue) > 0 {
			c = l.queue[0]
			l.queue = l.queue[1:]
			return true
		}
		return false
	}, time.Time{})
	if c == nil {
		return nil, errClosed
	}
	return c, nil
}

func (l *TCPListener) Accept() (Conn, error) {
	c, err := l.AcceptTCP()
	if err != nil {
		return nil, err
	}
	return c, nil
}

func (l *TCPListener) Close() error {
	l.n.mu.Lock()
	if l.closed {
		l.n.mu.Unlock()
		return errClosed
	}
	l.closed = true
	delete(l.n.listeners, key(l.addr.Host, l.addr.Port))
	pending := l.queue
	l.queue = nil
	l.n.mu.Unlock()
	for _, c := range pending {
		c.Reset() // never accepted: the dialer sees a reset
	}
	l.n.cond.Broadcast()
	return nil
}

type TCPConn struct {
	n            *Net
	ID           int
	local        *TCPAddr
	remote       *TCPAddr
	peer         *TCPConn
	cond         *simrt.Cond // shared by both ends
	mu           *sync.Mutex // shared by both ends
	in           []byte      // received, not yet read
	inCap        int
	finRecv      bool // peer closed its side
	rst          bool
	closed       bool
	rdl          time.Time
	grace        int
	BytesWritten int64
	BytesRead    int64
	Writes       int
	ServerSide   bool
}

func DialTCP(network string, laddr, raddr *TCPAddr) (*TCPConn, error) {
	return Cur().DialTCP(laddr, raddr)
}

func (n *Net) DialTCP(laddr, raddr *TCPAddr) (*TCPConn, error) {
	if raddr == nil {
		return nil, &opError{"dial", "missing address", false}
	}
	k := key(raddr.Host, raddr.Port)
	// a black-holed address: the dial hangs until the fault heals
	n.mu.Lock()
	bh := n.blackhole[k]
	n.mu.Unlock()
	if bh {
		n.count("dial_blackholed")
		n.cond.Wait(func() bool { n.mu.Lock(); defer n.mu.Unlock(); return !n.blackhole[k] }, time.Time{})
	}
	n.mu.Lock()
	l := n.lookup(raddr)
	if l == nil || l.closed {
		d := n.Cfg.RefuseDelay
		n.mu.Unlock()
		n.count("dial_refused")
		if d > 0 {
			simrt.Sleep(d)
		}
		return nil, errRefused
	}
	n.nextPort++
	n.nextID++
	id := n.nextID
	cl := &TCPAddr{"10.0.0.1", n.nextPort}
	if laddr != nil && laddr.Host != "" && laddr.Host != "0.0.0.0" {
		cl.Host = laddr.Host
	}
	shared := simrt.NewCond()
	mu := &sync.Mutex{}
	grace := 0
	if c := choices(); c != nil && n.Cfg.MaxGrace > 0 {
		n.mu.Unlock()
		grace = c.Range(0, n.Cfg.MaxGrace)
		n.mu.Lock()
	}
	a := &TCPConn{n: n, ID: id, local: cl, remote: raddr, cond: shared, mu: mu, inCap: n.Cfg.SockBuf, grace: grace}
	b := &TCPConn{n: n, ID: id, local: raddr, remote: cl, cond: shared, mu: mu, inCap: n.Cfg.SockBuf, grace: grace, ServerSide: true}
	a.peer, b.peer = b, a
	l.queue = append(l.queue, b)
	n.Conns = append(n.Conns, a)
	n.mu.Unlock()
	n.count("dial_ok")
	n.cond.Broadcast()
	return a, nil
}

func (c *TCPConn) LocalAddr() Addr  { return c.local }
func (c *TCPConn) RemoteAddr() Addr { return c.remote }

func (c *TCPConn) SetDeadline(t time.Time) error      { return c.SetReadDeadline(t) }
func (c *TCPConn) SetWriteDeadline(t time.Time) error { return nil }
func (c *TCPConn) SetReadDeadline(t time.Time) error {
	c.mu.Lock()
	defer c.mu.Unlock()
	if c.closed {
		return errClosed
	}
	c.rdl = t
	return nil
}

// Read returns what the network decided to deliver: possibly less than what is
// available (segmentation), possibly together with io.EOF.
func (c *TCPConn) Read(p []byte) (int, error) {
	var err error
	ready := func() bool {
		c.mu.Lock()
		defer c.mu.Unlock()
		switch {
		case c.closed:
			err = errClosed
		case c.rst:
			err = errReset
		case len(c.in) > 0:
			err = nil
		case c.finRecv:
			err = io.EOF
		default:
			return false
		}
		return true
	}
	c.mu.Lock()
	dl := c.rdl
	c.mu.Unlock()
	if !c.cond.Wait(ready, dl) {
		c.n.count("read_deadline")
		return 0, errTimeout
	}
	if err != nil {
		return 0, err
	}
	if len(p) == 0 {
		return 0, nil
	}
	c.mu.Lock()
	n := len(c.in)
	if n > len(p) {
		n = len(p)
	}
	cfg := c.n.Cfg
	c.mu.Unlock()
	if cfg.MaxReadChunk > 0 && n > cfg.MaxReadChunk {
		n = cfg.MaxReadChunk
	}
	ch := choices()
	if ch != nil && n > 1 && cfg.ChunkP > 0 && ch.Bool(cfg.ChunkP) {
		n = 1 + ch.Intn(n-1)
		c.n.count("read_cut_short")
	}
	c.mu.Lock()
	copy(p, c.in[:n])
	c.in = c.in[n:]
	if len(c.in) == 0 {
		c.in = nil
	}
	c.BytesRead += int64(n)
	last := len(c.in) == 0 && c.finRecv
	c.mu.Unlock()
	c.cond.Broadcast() // room for a blocked writer
	if last && ch != nil && cfg.EOFWithData > 0 && ch.Bool(cfg.EOFWithData) {
		c.n.count("read_data_with_eof")
		return n, io.EOF
	}
	if !dl.IsZero() && ch != nil && cfg.TimeoutWithData > 0 && ch.Bool(cfg.TimeoutWithData) {
		c.n.count("read_data_with_timeout")
		return n, errTimeout
	}
	return n, nil
}

// Write blocks while the peer's receive queue is full.
func (c *TCPConn) Write(p []byte) (int, error) {
	written := 0
	c.mu.Lock()
	c.Writes++
	c.mu.Unlock()
	for {
		var err error
		var done bool
		ok := func() bool {
			c.mu.Lock()
			defer c.mu.Unlock()
			pe := c.peer
			switch {
			case c.closed:
				err = errClosed
				return true
			case c.rst:
				err = errPipe
				return true
			case pe.closed:
				// the peer is gone: the kernel still takes a few writes before the RST is seen
				if c.grace > 0 {
					c.grace--
					written = len(p)
					done = true
					return true
				}
				c.rst = true
				err = errPipe
				return true
			}
			room := pe.inCap - len(pe.in)
			if room <= 0 {
				return false
			}
			n := len(p) - written
			if n > room {
				n = room
			}
			pe.in = append(pe.in, p[written:written+n]...)
			written += n
			c.BytesWritten += int64(n)
			if written == len(p) {
				done = true
			}
			return true
		}
		c.cond.Wait(ok, time.Time{})
		if err != nil {
			c.n.count("write_error")
			return written, err
		}
		c.cond.Broadcast()
		if done {
			return written, nil
		}
		c.n.count("write_blocked_on_full_buffer")
	}
}

// Close is an orderly close: the peer reads what is queued and then EOF.
func (c *TCPConn) Close() error {
	c.mu.Lock()
	if c.closed {
		c.mu.Unlock()
		return errClosed
	}
	c.closed = true
	unread := len(c.in) > 0
	c.in = nil
	c.peer.finRecv = true
	if unread {
		// closing with unread data makes the kernel answer with RST
		c.peer.rst = true
	}
	c.mu.Unlock()
	c.cond.Broadcast()
	return nil
}

// CloseWrite half-closes.
func (c *TCPConn) CloseWrite() error {
	c.mu.Lock()
	c.peer.finRecv = true
	c.mu.Unlock()
	c.cond.Broadcast()
	return nil
}

// Reset aborts the connection: both directions fail from now on.
func (c *TCPConn) Reset() {
	c.mu.Lock()
	c.rst = true
	c.peer.rst = true
	c.peer.finRecv = true
	c.mu.Unlock()
	c.n.count("conn_reset")
	c.cond.Broadcast()
}

// Buffered returns the number of bytes queued towards this end.
func (c *TCPConn) Buffered() int { c.mu.Lock(); defer c.mu.Unlock(); return len(c.in) }

// SetInCap changes the receive queue capacity of this end.
func (c *TCPConn) SetInCap(n int) { c.mu.Lock(); c.inCap = n; c.mu.Unlock(); c.cond.Broadcast() }

// Peer returns the other end (harness use).
func (c *TCPConn) Peer() *TCPConn { return c.peer }

func (c *TCPConn) String() string { return fmt.Sprintf("conn%d(%v->%v)", c.ID, c.local, c.remote) }

// ---- UDP ----

type datagram struct {
	b    []byte
	from *UDPAddr
}

type UDPConn struct {
	n      *Net
	addr   *UDPAddr
	q      []datagram
	closed bool
}

func ListenUDP(network string, laddr *UDPAddr) (*UDPConn, error) { return Cur().ListenUDP(laddr) }

func (n *Net) ListenUDP(laddr *UDPAddr) (*UDPConn, error) {
	if laddr == nil {
		return nil, &opError{"listen", "missing address", false}
	}
	n.mu.Lock()
	defer n.mu.Unlock()
	k := key(laddr.Host, laddr.Port)
	if _, ok := n.udp[k]; ok {
		return nil, &opError{"listen", "address already in use", false}
	}
	u := &UDPConn{n: n, addr: laddr}
	n.udp[k] = u
	return u, nil
}

// SendUDP delivers one datagram to the socket bound to addr (harness use).
func (n *Net) SendUDP(addr string, payload []byte) bool {
	h, p, err := splitHostPort(addr)
	if err != nil {
		return false
	}
	n.mu.Lock()
	u := n.udp[key(h, p)]
	if u == nil {
		u = n.udp[key("0.0.0.0", p)]
	}
	if u == nil || u.closed {
		n.mu.Unlock()
		return false
	}
	u.q = append(u.q, datagram{append([]byte(nil), payload...), &UDPAddr{"10.0.0.9", 5555}})
	n.mu.Unlock()
	n.cond.Broadcast()
	return true
}

func (u *UDPConn) ReadFrom(b []byte) (int, Addr, error) {
	var d *datagram
	u.n.cond.Wait(func() bool {
		u.n.mu.Lock()
		defer u.n.mu.Unlock()
		if u.closed {
			return true
		}
		if len(u.q) > 0 {
			x := u.q[0]
			u.q = u.q[1:]
			d = &x
			return true
		}
		return false
	}, time.Time{})
	if d == nil {
		return 0, nil, errClosed
	}
	n := copy(b, d.b)
	return n, d.from, nil
}

func (u *UDPConn) Close() error {
	u.n.mu.Lock()
	if u.closed {
		u.n.mu.Unlock()
		return errClosed
	}
	u.closed = true
	delete(u.n.udp, key(u.addr.Host, u.addr.Port))
	u.n.mu.Unlock()
	u.n.cond.Broadcast()
	return nil
}

func (u *UDPConn) LocalAddr() Addr { return u.addr }
