// Package ioutil is the io/ioutil replacement for the extracted config helpers.
package ioutil

import "crsim/simos"

//go:norace
func ReadFile(name string) ([]byte, error) { return simos.ReadFile(name) }
