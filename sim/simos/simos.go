// Package simos is the in-memory file system the instrumented relay sees instead
// of package os (DESIGN.md 3.5).  Every mutating call is an operation boundary:
// numbered, logged, and a place where the run's fault plan can take a crash
// snapshot, return an error or stall.
package simos

import (
	"errors"
	"fmt"
	"io"
	"os"
	"path"
	"sort"
	"strings"
	"sync"
	"time"

	"crsim/simrt"
)

const (
	O_RDONLY = os.O_RDONLY
	O_WRONLY = os.O_WRONLY
	O_RDWR   = os.O_RDWR
	O_APPEND = os.O_APPEND
	O_CREATE = os.O_CREATE
	O_EXCL   = os.O_EXCL
	O_TRUNC  = os.O_TRUNC
	ModePerm = os.ModePerm
)

type FileMode = os.FileMode

var (
	ErrNotExist = os.ErrNotExist
	ErrNoSpace  = errors.New("no space left on device")
	ErrIO       = errors.New("input/output error")
	ErrTooMany  = errors.New("too many open files")
	Expand      = os.Expand
	// Stderr swallows what the relay prints to standard error.
	Stderr io.Writer = io.Discard
)

//go:norace
func IsNotExist(err error) bool { return os.IsNotExist(err) }

type inode struct {
	data []byte
}

// Op describes one completed mutating operation.
type Op struct {
	N    int
	Kind string // mkdir create write sync rename remove
	Path string
	Arg  string
}

// FS is one simulated disk.
type FS struct {
	mu    sync.Mutex
	files map[string]*inode
	dirs  map[string]bool
	Ops   int
	// AfterOp is called (in the calling task) after every completed mutating operation.
	AfterOp func(fs *FS, op Op)
	// Fault decides before a mutating operation whether it fails; nil = never.
	Fault func(fs *FS, n int, kind, path string) error
	// Stall returns a simulated duration to wait before the operation.
	Stall func(fs *FS, n int, kind, path string) time.Duration
	Env   map[string]string
	Host  string
	Trace bool
	Count map[string]int
}

//go:norace
func NewFS() *FS {
	return &FS{files: map[string]*inode{}, dirs: map[string]bool{"/": true}, Env: map[string]string{}, Host: "simhost.example.org", Count: map[string]int{}}
}

var (
	curMu sync.Mutex
	cur   = NewFS()
)

// Use installs the file system seen by the relay from now on.
//
//go:norace
func Use(fs *FS) { lk(&curMu); cur = fs; ul(&curMu) }

//go:norace
func Cur() *FS { lk(&curMu); defer ul(&curMu); return cur }

// Clone returns a deep copy: the disk as a process crash at this instant would leave it.
//
//go:norace
func (fs *FS) Clone() *FS {
	lk(&fs.mu)
	defer ul(&fs.mu)
	n := NewFS()
	for k, v := range fs.files {
		n.files[k] = &inode{data: append([]byte(nil), v.data...)}
	}
	for k := range fs.dirs {
		n.dirs[k] = true
	}
	for k, v := range fs.Env {
		n.Env[k] = v
	}
	n.Host = fs.Host
	return n
}

// Hash is a digest of the whole disk image.
//
//go:norace
func (fs *FS) Hash() uint64 {
	lk(&fs.mu)
	defer ul(&fs.mu)
	var names []string
	for k := range fs.files {
		names = append(names, k)
	}
	sort.Strings(names)
	h := uint64(1469598103934665603)
	mix := func(b []byte) {
		for _, c := range b {
			h = (h ^ uint64(c)) * 1099511628211
		}
		h = (h ^ 0xff) * 1099511628211
	}
	for _, n := range names {
		mix([]byte(n))
		mix(fs.files[n].data)
	}
	return h
}

// Files lists path -> size (sorted), for reports.
//
//go:norace
func (fs *FS) Files() []string {
	lk(&fs.mu)
	defer ul(&fs.mu)
	var out []string
	for k, v := range fs.files {
		out = append(out, fmt.Sprintf("%s(%d)", k, len(v.data)))
	}
	sort.Strings(out)
	return out
}

// ReadAll returns the content of a file (harness use).
//
//go:norace
func (fs *FS) ReadAll(name string) ([]byte, bool) {
	lk(&fs.mu)
	defer ul(&fs.mu)
	in, ok := fs.files[path.Clean(name)]
	if !ok {
		return nil, false
	}
	return append([]byte(nil), in.data...), true
}

// WriteFile installs a file (harness use; not an operation boundary).
//
//go:norace
func (fs *FS) WriteFile(name string, data []byte) {
	lk(&fs.mu)
	name = path.Clean(name)
	fs.files[name] = &inode{data: append([]byte(nil), data...)}
	for d := path.Dir(name); ; d = path.Dir(d) {
		fs.dirs[d] = true
		if d == "/" || d == "." {
			break
		}
	}
	ul(&fs.mu)
}

//go:norace
func (fs *FS) pre(kind, p string) error {
	lk(&fs.mu)
	n := fs.Ops + 1
	stall, fault := fs.Stall, fs.Fault
	ul(&fs.mu)
	if stall != nil {
		if d := stall(fs, n, kind, p); d > 0 {
			simrt.Probe("simos.stall")
			simrt.Sleep(d)
		}
	}
	if fault != nil {
		if err := fault(fs, n, kind, p); err != nil {
			lk(&fs.mu)
			fs.Ops++
			fs.Count["fault."+kind]++
			ul(&fs.mu)
			simrt.Probe("simos.fault." + kind)
			simrt.Logf("simos op %d %s %s -> fault %v", n, kind, p, err)
			return &os.PathError{Op: kind, Path: p, Err: err}
		}
	}
	return nil
}

//go:norace
func (fs *FS) post(kind, p, arg string) {
	lk(&fs.mu)
	fs.Ops++
	n := fs.Ops
	fs.Count[kind]++
	cb := fs.AfterOp
	ul(&fs.mu)
	simrt.Logf("simos op %d %s %s %s", n, kind, p, arg)
	if cb != nil {
		cb(fs, Op{N: n, Kind: kind, Path: p, Arg: arg})
	}
}

//go:norace
func MkdirAll(p string, perm FileMode) error {
	fs := Cur()
	p = path.Clean(p)
	lk(&fs.mu)
	exists := fs.dirs[p]
	_, isFile := fs.files[p]
	ul(&fs.mu)
	if isFile {
		return &os.PathError{Op: "mkdir", Path: p, Err: errors.New("not a directory")}
	}
	if exists {
		return nil
	}
	if err := fs.pre("mkdir", p); err != nil {
		return err
	}
	lk(&fs.mu)
	for d := p; ; d = path.Dir(d) {
		fs.dirs[d] = true
		if d == "/" || d == "." {
			break
		}
	}
	ul(&fs.mu)
	fs.post("mkdir", p, "")
	return nil
}

// File is the simulated *os.File.
type File struct {
	fs     *FS
	name   string
	in     *inode
	off    int64
	flag   int
	closed bool
}

//go:norace
func OpenFile(name string, flag int, perm FileMode) (*File, error) {
	fs := Cur()
	name = path.Clean(name)
	lk(&fs.mu)
	in, ok := fs.files[name]
	dirOK := fs.dirs[path.Dir(name)]
	ul(&fs.mu)
	if !ok {
		if flag&O_CREATE == 0 || !dirOK {
			return nil, &os.PathError{Op: "open", Path: name, Err: os.ErrNotExist}
		}
		if err := fs.pre("create", name); err != nil {
			return nil, err
		}
		lk(&fs.mu)
		in = &inode{}
		fs.files[name] = in
		ul(&fs.mu)
		fs.post("create", name, "")
	} else if flag&O_TRUNC != 0 && len(in.data) > 0 {
		if err := fs.pre("truncate", name); err != nil {
			return nil, err
		}
		lk(&fs.mu)
		in.data = nil
		ul(&fs.mu)
		fs.post("truncate", name, "")
	}
	return &File{fs: fs, name: name, in: in, flag: flag}, nil
}

//go:norace
func Open(name string) (*File, error) { return OpenFile(name, O_RDONLY, 0) }

//go:norace
func Create(name string) (*File, error) {
	return OpenFile(name, O_RDWR|O_CREATE|O_TRUNC, 0666)
}

//go:norace
func (f *File) Name() string { return f.name }

//go:norace
func (f *File) Read(p []byte) (int, error) {
	if f == nil || f.closed {
		return 0, os.ErrClosed
	}
	lk(&f.fs.mu)
	defer ul(&f.fs.mu)
	if f.off >= int64(len(f.in.data)) {
		return 0, io.EOF
	}
	n := copy(p, f.in.data[f.off:])
	f.off += int64(n)
	return n, nil
}

//go:norace
func (f *File) Write(p []byte) (int, error) {
	if f == nil || f.closed {
		return 0, os.ErrClosed
	}
	if f.flag&(O_WRONLY|O_RDWR) == 0 {
		return 0, &os.PathError{Op: "write", Path: f.name, Err: errors.New("bad file descriptor")}
	}
	if err := f.fs.pre("write", f.name); err != nil {
		return 0, err
	}
	lk(&f.fs.mu)
	if f.flag&O_APPEND != 0 {
		f.off = int64(len(f.in.data))
	}
	end := f.off + int64(len(p))
	if int64(len(f.in.data)) < end {
		nd := make([]byte, end)
		copy(nd, f.in.data)
		f.in.data = nd
	}
	copy(f.in.data[f.off:], p)
	at := f.off
	f.off = end
	ul(&f.fs.mu)
	f.fs.post("write", f.name, fmt.Sprintf("@%d+%d", at, len(p)))
	return len(p), nil
}

//go:norace
func (f *File) WriteString(s string) (int, error) { return f.Write([]byte(s)) }

//go:norace
func (f *File) Seek(offset int64, whence int) (int64, error) {
	if f == nil || f.closed {
		return 0, os.ErrClosed
	}
	lk(&f.fs.mu)
	defer ul(&f.fs.mu)
	switch whence {
	case 0:
		f.off = offset
	case 1:
		f.off += offset
	case 2:
		f.off = int64(len(f.in.data)) + offset
	}
	if f.off < 0 {
		f.off = 0
		return 0, errors.New("negative position")
	}
	return f.off, nil
}

//go:norace
func (f *File) Sync() error {
	if f == nil || f.closed {
		return os.ErrClosed
	}
	if err := f.fs.pre("sync", f.name); err != nil {
		return err
	}
	f.fs.post("sync", f.name, "")
	return nil
}

//go:norace
func (f *File) Close() error {
	if f == nil {
		return os.ErrInvalid
	}
	if f.closed {
		return os.ErrClosed
	}
	f.closed = true
	return nil
}

//go:norace
func Remove(name string) error {
	fs := Cur()
	name = path.Clean(name)
	lk(&fs.mu)
	_, ok := fs.files[name]
	ul(&fs.mu)
	if !ok {
		return &os.PathError{Op: "remove", Path: name, Err: os.ErrNotExist}
	}
	if err := fs.pre("remove", name); err != nil {
		return err
	}
	lk(&fs.mu)
	delete(fs.files, name)
	ul(&fs.mu)
	fs.post("remove", name, "")
	return nil
}

//go:norace
func Rename(oldp, newp string) error {
	fs := Cur()
	oldp, newp = path.Clean(oldp), path.Clean(newp)
	lk(&fs.mu)
	in, ok := fs.files[oldp]
	ul(&fs.mu)
	if !ok {
		return &os.LinkError{Op: "rename", Old: oldp, New: newp, Err: os.ErrNotExist}
	}
	if err := fs.pre("rename", oldp); err != nil {
		return err
	}
	lk(&fs.mu)
	delete(fs.files, oldp)
	fs.files[newp] = in
	ul(&fs.mu)
	fs.post("rename", oldp, newp)
	return nil
}

// Truncate changes the size of the named file.
//
//go:norace
func Truncate(name string, size int64) error {
	fs := Cur()
	name = path.Clean(name)
	lk(&fs.mu)
	in, ok := fs.files[name]
	ul(&fs.mu)
	if !ok {
		return &os.PathError{Op: "truncate", Path: name, Err: os.ErrNotExist}
	}
	if err := fs.pre("truncate", name); err != nil {
		return err
	}
	lk(&fs.mu)
	if int64(len(in.data)) > size {
		in.data = in.data[:size]
	} else {
		nd := make([]byte, size)
		copy(nd, in.data)
		in.data = nd
	}
	ul(&fs.mu)
	fs.post("truncate", name, fmt.Sprint(size))
	return nil
}

type fileInfo struct {
	name string
	size int64
	dir  bool
}

//go:norace
func (fi fileInfo) Name() string { return path.Base(fi.name) }

//go:norace
func (fi fileInfo) Size() int64 { return fi.size }

//go:norace
func (fi fileInfo) Mode() os.FileMode { return 0644 }

//go:norace
func (fi fileInfo) ModTime() time.Time { return time.Time{} }

//go:norace
func (fi fileInfo) IsDir() bool { return fi.dir }

//go:norace
func (fi fileInfo) Sys() interface{} { return nil }

//go:norace
func Stat(name string) (os.FileInfo, error) {
	fs := Cur()
	name = path.Clean(name)
	lk(&fs.mu)
	defer ul(&fs.mu)
	if in, ok := fs.files[name]; ok {
		return fileInfo{name, int64(len(in.data)), false}, nil
	}
	if fs.dirs[name] {
		return fileInfo{name, 0, true}, nil
	}
	return nil, &os.PathError{Op: "stat", Path: name, Err: os.ErrNotExist}
}

//go:norace
func Hostname() (string, error) { return Cur().Host, nil }

//go:norace
func Getenv(k string) string { return Cur().Env[k] }

//go:norace
func Getpid() int { return 4242 }

// Exit records that the relay tried to terminate the process.
//
//go:norace
func Exit(code int) { simrt.Exit(code) }

// ReadFile is ioutil.ReadFile on the simulated disk.
//
//go:norace
func ReadFile(name string) ([]byte, error) {
	b, ok := Cur().ReadAll(name)
	if !ok {
		return nil, &os.PathError{Op: "open", Path: name, Err: os.ErrNotExist}
	}
	return b, nil
}

// HasPrefixFiles reports files below a directory (harness use).
//
//go:norace
func (fs *FS) Under(dir string) []string {
	lk(&fs.mu)
	defer ul(&fs.mu)
	var out []string
	for k := range fs.files {
		if strings.HasPrefix(k, path.Clean(dir)+"/") {
			out = append(out, k)
		}
	}
	sort.Strings(out)
	return out
}

// lk/ul bracket the device's own critical sections; in a race build they are invisible to the race detector (simrt.SyncOff),
// like the kernel's locks would be: a device must not order the tasks that use it.
//
//go:norace
func lk(m *sync.Mutex) { simrt.SyncOff(); m.Lock() }

//go:norace
func ul(m *sync.Mutex) { m.Unlock(); simrt.SyncOn() }
