package simrt

// Choices is the single source of every decision of a run (DESIGN.md 4). It is
// backed either by a splitmix64 PRNG (exploration; every draw is recorded) or by
// a recorded list (replay; an exhausted list yields 0, and 0 is always the
// "boring" choice).
type Choices struct {
	state   uint64
	Rec     []uint32
	replay  []uint32
	pos     int
	Replay  bool
	Clamped int // replayed values that had to be reduced mod n
}

//go:norace
func NewChoices(seed uint64) *Choices { return &Choices{state: seed} }

//go:norace
func NewReplay(list []uint32) *Choices { return &Choices{replay: list, Replay: true} }

//go:norace
func (c *Choices) next() uint64 {
	c.state += 0x9E3779B97F4A7C15
	z := c.state
	z = (z ^ (z >> 30)) * 0xBF58476D1CE4E5B9
	z = (z ^ (z >> 27)) * 0x94D049BB133111EB
	return z ^ (z >> 31)
}

// Mix derives an independent seed.
//
//go:norace
func Mix(a, b uint64) uint64 {
	c := Choices{state: a ^ (b * 0xD6E8FEB86659FD93)}
	c.next()
	return c.next()
}

//go:norace
func (c *Choices) draw(n int, gen func() int) int {
	if n <= 1 {
		return 0
	}
	var v int
	if c.Replay {
		if c.pos < len(c.replay) {
			v = int(c.replay[c.pos])
		}
		c.pos++
		if v >= n {
			v %= n
			c.Clamped++
		}
	} else {
		v = gen()
	}
	c.Rec = append(c.Rec, uint32(v))
	return v
}

// Intn returns a uniform value in [0,n).
//
//go:norace
func (c *Choices) Intn(n int) int {
	return c.draw(n, func() int { return int(c.next() % uint64(n)) })
}

// Biased returns 0 with probability pZero, otherwise a uniform value in [1,n).
//
//go:norace
func (c *Choices) Biased(n int, pZero float64) int {
	return c.draw(n, func() int {
		if float64(c.next()>>11)/float64(1<<53) < pZero {
			return 0
		}
		return 1 + int(c.next()%uint64(n-1))
	})
}

// Bool returns true with probability p (recorded as 1).
//
//go:norace
func (c *Choices) Bool(p float64) bool { return c.Biased(2, 1-p) == 1 }

// Range returns a uniform value in [lo,hi] (inclusive); lo is the boring value.
//
//go:norace
func (c *Choices) Range(lo, hi int) int {
	if hi <= lo {
		return lo
	}
	return lo + c.Intn(hi-lo+1)
}

// Pick returns an index into a list of n options.
//
//go:norace
func (c *Choices) Pick(n int) int { return c.Intn(n) }

// Used reports how many draws were consumed.
//
//go:norace
func (c *Choices) Used() int { return len(c.Rec) }
