//go:build !race

package simrt

const RaceBuild = false

//go:norace
func SyncOff() {}

//go:norace
func SyncOn()          {}
func taskRelease(*Sim) {}
func caseAcquire(*Sim) {}
