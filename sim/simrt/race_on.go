//go:build race

package simrt

import (
	"runtime"
	"unsafe"
)

// RaceBuild reports whether the simulator was built with the race detector (bin/check's race pass).
const RaceBuild = true

// SyncOff hides the synchronisation the simulator itself performs (baton hand-off, its own locks, the simulated devices' locks)
// from the race detector: serialising the tasks must not create happens-before edges between them, or no race in the system
// under test would ever be visible.  Memory accesses are still tracked.  Calls nest.
//
//go:norace
func SyncOff() { runtime.RaceDisable() }

//go:norace
func SyncOn() { runtime.RaceEnable() }

// taskRelease/caseAcquire order everything the tasks of one case did before the test goroutine's work after that case (and so
// before the next case, which it starts): without them the detector would pair an access of this case with one of the previous.
//
//go:norace
func taskRelease(s *Sim) { runtime.RaceReleaseMerge(unsafe.Pointer(&s.endSync)) }

//go:norace
func caseAcquire(s *Sim) { runtime.RaceAcquire(unsafe.Pointer(&s.endSync)) }
