package simrt

import _ "unsafe"

// nowReal reads the real monotonic clock even inside a synctest bubble (used only for the
// infrastructure budget of a run; never for a decision of the simulation).
//
//go:linkname runtimeNano runtime.nanotime
//go:norace
func runtimeNano() int64

//go:norace
func nowReal() int64 { return runtimeNano() }
