// Package simrt is the deterministic scheduler of crsim (DESIGN.md 3.2).
//
// All goroutines of the system under test run as real goroutines inside a
// testing/synctest bubble, but only the task holding the baton executes
// instrumented code.  The instrumenter (simgen) inserts simrt.Y before every
// statement: for the baton holder it is a (possibly armed) preemption point; for
// a goroutine that the Go runtime woke up because of somebody else's action (a
// channel send, a close, a timer) it is the place where it parks and becomes a
// scheduling candidate.  The scheduler uses synctest.Wait as its quiescence
// oracle and draws every decision from one recorded choice stream.
package simrt

import (
	"fmt"
	"hash/fnv"
	"os"
	"runtime"
	"runtime/debug"
	"sort"
	"strings"
	"sync"
	"sync/atomic"
	"testing"
	"testing/synctest"
	"time"
)

const (
	stParked  = iota // waiting on its wake channel, runnable
	stRunning        // holds the baton
	stBlocked        // inside a real blocking operation of the Go runtime
	stDone
)

// Task is one supervised goroutine.
type Task struct {
	ID      int
	Name    string
	Domain  string
	Group   string
	goid    uint64
	wake    chan struct{}
	state   int
	where   string
	budget  int64
	selSeed uint64 // select poll order state for the next stretch, set by the scheduler
	dead    bool
	spin    int64
	parkSeq int64 // when it became runnable (FIFO fairness of the default choice)
	quiet   bool  // waiting for every other task to be blocked (Quiesce)
	sim     *Sim
}

// Config holds the per-run scheduling knobs (drawn from the plan stream, swarm style).
type Config struct {
	MaxSteps   int
	Horizon    time.Duration // simulated time budget
	SwitchP    float64       // probability of switching away from the last task at a scheduling point
	PreemptP   float64       // probability that a released task gets a finite statement budget
	MaxBudget  int           // upper bound for that budget (statements)
	TimeRaceP  float64       // probability of letting timers up to RaceDelta ahead fire while tasks are runnable
	RaceDelta  time.Duration
	MaxIdle    time.Duration // longest single clock jump while nothing is runnable
	MaxReal    time.Duration // real-time budget of one run (infrastructure limit)
	TraceLimit int           // ring buffer of log lines kept for reports
	Trace      bool          // keep the full log
}

//go:norace
func DefaultConfig() Config {
	return Config{MaxSteps: 400000, Horizon: 10 * time.Minute, SwitchP: 0.2, PreemptP: 0.05, MaxBudget: 40,
		TimeRaceP: 0.02, RaceDelta: 5 * time.Millisecond, MaxIdle: time.Hour, TraceLimit: 400, MaxReal: 90 * time.Second}
}

// PanicInfo records a task that panicked or tried to exit the process.
type PanicInfo struct {
	Task  string
	Group string
	Value string
	Exit  bool
	Stack string
	At    time.Duration
}

// Violation is the first property violation of a run.
type Violation struct {
	Class string
	Msg   string
	At    time.Duration
	Step  int
}

type Stats struct {
	Steps, Parks, Yields, Preempts, Switches, ClockAdvances, TimeRaces, Tasks, Broadcasts int
	SimTime                                                                               time.Duration
}

// Sim is one simulated execution.
type Sim struct {
	mu         sync.Mutex
	byGoid     map[uint64]*Task
	tasks      []*Task
	current    *Task
	curGoid    atomic.Uint64
	last       *Task
	kick       chan struct{}
	lockc      *Cond
	Cfg        Config
	Sched      *Choices
	frozen     map[string]bool
	deadGroups map[string]bool
	start      time.Time
	stop       bool
	reason     string

	parkCtr int64
	ycount  int64 // touched by the baton holder only
	spins   int64

	St        Stats
	Panics    []PanicInfo
	Viol      *Violation
	InfraErr  string
	logRing   []string
	logFull   []string
	logN      int
	eventHash uint64
	schedHash uint64
	Probes    map[string]int
	selSeed   uint64
	selSeed0  uint64
	endSync   uint64 // race builds: what every task releases into when it parks, acquired by the test goroutine after the case
	knobSeed  uint64
	T         *testing.T

	guardOn    bool
	guardDom   string
	guardStart int
	guardMax   int
	GuardTrip  string
	Guards     int
}

const spinLimit = 50000

var active atomic.Pointer[Sim]
var beat atomic.Int64 // heartbeat for the real-time watchdog

// Active returns the running simulation, or nil.
//
//go:norace
func Active() *Sim { return active.Load() }

// Heartbeat returns a counter that moves whenever the scheduler makes progress.
//
//go:norace
func Heartbeat() int64 { return beat.Load() }

type exitSentinel struct{ code int }

// Exit is what os.Exit / log.Fatal are redirected to: it unwinds the calling task
// and records that the relay tried to terminate the process.
//
//go:norace
func Exit(code int) {
	if Active() == nil {
		os.Exit(code)
	}
	panic(exitSentinel{code})
}

// Now returns simulated time elapsed since the start of the run.
//
//go:norace
func (s *Sim) Now() time.Duration { return time.Since(s.start) }

//go:norace
func (s *Sim) lookup(g uint64) *Task {
	s.lock()
	t := s.byGoid[g]
	s.unlock()
	return t
}

// Me returns the calling task (nil for unsupervised goroutines).
//
//go:norace
func (s *Sim) Me() *Task { return s.lookup(runtime.VerifGoid()) }

// lock/unlock bracket every access to the simulator's own state; in a race build the bracket is invisible to the detector
//
//go:norace
func (s *Sim) lock() { SyncOff(); s.mu.Lock() }

//go:norace
func (s *Sim) unlock() { s.mu.Unlock(); SyncOn() }

//go:norace
func (s *Sim) kickSched() {
	SyncOff()
	select {
	case s.kick <- struct{}{}:
	default:
	}
	SyncOn()
}

//go:norace
func (t *Task) park(where string) {
	s := t.sim
	taskRelease(s)
	s.lock()
	t.state = stParked
	t.where = where
	t.parkSeq = 0 // assigned by the scheduler, in task-id order, once everybody is quiescent
	if s.current == t {
		s.current = nil
		s.curGoid.Store(0)
	}
	s.St.Parks++
	s.unlock()
	s.kickSched()
	SyncOff()
	<-t.wake
	SyncOn()
	runtime.VerifSetSelectSeed(t.selSeed) // the poll order of this stretch, chosen by the scheduler when it released the task
}

// Y is inserted before every statement of the system under test.
//
//go:norace
func Y(site string) {
	s := active.Load()
	if s == nil {
		return
	}
	g := runtime.VerifGoid()
	if s.curGoid.Load() == g {
		s.ycount++
		t := s.current
		t.spin++
		if t.spin > spinLimit {
			// a task that executes this many statements without ever blocking is spinning
			t.spin = 0
			s.spins++
			t.park(site)
			return
		}
		if t.budget > 0 {
			t.budget--
			if t.budget == 0 {
				s.St.Preempts++
				t.park(site)
			}
		}
		return
	}
	t := s.lookup(g)
	if t == nil {
		return
	}
	t.park(site)
}

// Progress is called by a simulated device whenever the calling task moved data: the spin guard counts statements executed
// without ever blocking, and a task that keeps transferring bytes without having to wait for them is not spinning.
//
//go:norace
func Progress() {
	s := active.Load()
	if s == nil {
		return
	}
	if s.curGoid.Load() == runtime.VerifGoid() && s.current != nil {
		s.current.spin = 0
	}
}

// Yield is Y for hand-written harness code: call it after any real blocking operation.
//
//go:norace
func Yield(site string) {
	Progress() // the harness only gets here when a call into the relay has returned: whatever it did, it is not spinning
	Y(site)
}

// Sleep sleeps on the simulated clock.
//
//go:norace
func Sleep(d time.Duration) {
	time.Sleep(d)
	Y("sleep")
}

// Go replaces the go statement.
//
//go:norace
func Go(site string, f func()) {
	s := active.Load()
	if s == nil {
		go f()
		return
	}
	var dom, grp string
	if p := s.Me(); p != nil {
		dom, grp = p.Domain, p.Group
		if p.dead {
			// a crashed incarnation must not start anything new
			return
		}
	}
	s.spawn(site, dom, grp, f)
}

// Spawn starts a harness task in the given domain and group.
//
//go:norace
func (s *Sim) Spawn(name, domain, group string, f func()) *Task {
	return s.spawn(name, domain, group, f)
}

//go:norace
func (s *Sim) spawn(name, domain, group string, f func()) *Task {
	s.lock()
	t := &Task{ID: len(s.tasks), Name: name, Domain: domain, Group: group, wake: make(chan struct{}), state: stBlocked, sim: s}
	t.dead = s.deadGroups[group]
	s.tasks = append(s.tasks, t)
	s.St.Tasks++
	s.unlock()
	go func() {
		g := runtime.VerifGoid()
		s.lock()
		t.goid = g
		s.byGoid[g] = t
		s.unlock()
		// the PRNG states the runtime draws from on behalf of this goroutine (select poll order, map seeds, unseeded math/rand)
		// belong to the task, so neither a task running in parallel up to its next yield point nor a goroutine the simulator
		// does not schedule can perturb them
		runtime.VerifSetMapSeed(Mix(s.knobSeed, uint64(t.ID)+1) | 1)
		runtime.VerifSetSelectSeed(Mix(s.selSeed0, uint64(t.ID)+1) | 1)
		defer func() {
			r := recover()
			taskRelease(s)
			runtime.VerifSetMapSeed(0) // the g may be reused by a goroutine that is not a task
			runtime.VerifSetSelectSeed(0)
			s.lock()
			if r != nil {
				pi := PanicInfo{Task: t.Name, Group: t.Group, At: time.Since(s.start)}
				if e, ok := r.(exitSentinel); ok {
					pi.Exit = true
					pi.Value = fmt.Sprintf("exit(%d)", e.code)
				} else {
					pi.Value = fmt.Sprint(r)
				}
				pi.Stack = string(debug.Stack())
				if !t.dead {
					s.Panics = append(s.Panics, pi)
				}
			}
			t.state = stDone
			delete(s.byGoid, g)
			if s.current == t {
				s.current = nil
				s.curGoid.Store(0)
			}
			s.unlock()
			s.kickSched()
		}()
		t.park("start")
		f()
	}()
	return t
}

// Cond is a broadcast condition for hand-written harness code, simulated devices and the mutex emulation.
// A harness Cond (NewCond) is real synchronisation as far as the race detector is concerned: "the table was built before the
// clients started" is an ordering the program under test would have too.  A device Cond (NewDevCond: socket buffers, the mutex
// emulation) is not: a device must not order the tasks that use it.
type Cond struct {
	mu  sync.Mutex
	ch  chan struct{}
	dev bool
}

//go:norace
func NewCond() *Cond { return &Cond{ch: make(chan struct{})} }

//go:norace
func NewDevCond() *Cond { return &Cond{ch: make(chan struct{}), dev: true} }

//go:norace
func (c *Cond) get() chan struct{} {
	if c.dev {
		SyncOff()
		defer SyncOn()
	}
	c.mu.Lock()
	ch := c.ch
	c.mu.Unlock()
	return ch
}

// Broadcast wakes every waiter; they become scheduling candidates.
//
//go:norace
func (c *Cond) Broadcast() {
	if c.dev {
		SyncOff()
	}
	c.mu.Lock()
	close(c.ch)
	c.ch = make(chan struct{})
	c.mu.Unlock()
	if c.dev {
		SyncOn()
	}
	if s := active.Load(); s != nil {
		s.St.Broadcasts++
	}
}

// Wait blocks the calling task until cond() holds (true) or the deadline on the
// simulated clock passes (false).  A zero deadline means none.
//
//go:norace
func (c *Cond) Wait(cond func() bool, deadline time.Time) bool {
	for {
		ch := c.get() // before looking at the condition: whatever a broadcaster did before its Broadcast is visible (and ordered)
		if cond() {
			return true
		}
		if !deadline.IsZero() && !time.Now().Before(deadline) {
			return false
		}
		if c.dev {
			SyncOff()
		}
		if deadline.IsZero() {
			<-ch
		} else {
			tm := time.NewTimer(time.Until(deadline))
			select {
			case <-ch:
			case <-tm.C:
			}
			tm.Stop()
		}
		if c.dev {
			SyncOn()
		}
		Y("cond")
	}
}

// Lock replaces x.Lock(): tasks never park inside the Go runtime on a mutex
// (a sync.Mutex wait is not "durably blocked" for synctest).
//
//go:norace
func Lock(lock func(), try func() bool) {
	s := active.Load()
	if s == nil {
		lock()
		return
	}
	for !try() { // the system's own TryLock and Unlock stay visible to the race detector: they are its synchronisation
		ch := s.lockc.get()
		SyncOff()
		<-ch
		SyncOn()
		Y("lockwait")
	}
}

// Unlock replaces x.Unlock().
//
//go:norace
func Unlock(unlock func()) {
	unlock()
	if s := active.Load(); s != nil {
		s.lockc.Broadcast()
	}
}

// Freeze makes the tasks of a domain unschedulable until Thaw.
//
//go:norace
func (s *Sim) Freeze(domain string) { s.lock(); s.frozen[domain] = true; s.unlock() }

//go:norace
func (s *Sim) Thaw(domain string) { s.lock(); delete(s.frozen, domain); s.unlock() }

// GuardBegin starts a boundedness window (C06, C17): the given domain is frozen and the
// clock may not advance; if nothing else is runnable before GuardEnd, or more than
// maxSteps scheduler steps pass, the operation in progress depends on that domain or on
// time and the run ends with GuardTrip set.
//
//go:norace
func (s *Sim) GuardBegin(domain string, maxSteps int) {
	s.lock()
	s.guardOn, s.guardDom, s.guardStart, s.guardMax = true, domain, s.St.Steps, maxSteps
	s.frozen[domain] = true
	s.Guards++
	s.unlock()
}

//go:norace
func (s *Sim) GuardEnd() {
	s.lock()
	s.guardOn = false
	delete(s.frozen, s.guardDom)
	s.unlock()
}

// Kill marks every task of a group dead: a crashed incarnation.  Dead tasks are never scheduled again.
//
//go:norace
func (s *Sim) Kill(group string) int {
	n := 0
	s.lock()
	s.deadGroups[group] = true // tasks started for this incarnation from now on are born dead
	for _, t := range s.tasks {
		if t.Group == group && t.state != stDone && !t.dead {
			t.dead = true
			n++
		}
	}
	s.unlock()
	return n
}

// Die makes the calling task part of a crashed incarnation: it never runs again.
//
//go:norace
func Die() {
	s := active.Load()
	if s == nil {
		return
	}
	t := s.Me()
	if t == nil {
		return
	}
	s.lock()
	t.dead = true
	s.unlock()
	t.park("dead")
}

// Stop ends the run after the current step.
//
//go:norace
func (s *Sim) Stop(reason string) {
	s.lock()
	if !s.stop {
		s.stop = true
		s.reason = reason
	}
	s.unlock()
}

// Fail records the first violation of the run.
//
//go:norace
func (s *Sim) Fail(class, format string, a ...interface{}) {
	s.lock()
	if s.Viol == nil {
		s.Viol = &Violation{Class: class, Msg: fmt.Sprintf(format, a...), At: time.Since(s.start), Step: s.St.Steps}
	}
	s.unlock()
	s.Logf("VIOLATION %s: %s", class, fmt.Sprintf(format, a...))
}

// Failed reports whether a violation has been recorded.
//
//go:norace
func (s *Sim) Failed() bool { s.lock(); defer s.unlock(); return s.Viol != nil }

// Infra records harness trouble (exit 2, never a VIOLATION).
//
//go:norace
func (s *Sim) Infra(format string, a ...interface{}) {
	s.lock()
	if s.InfraErr == "" {
		s.InfraErr = fmt.Sprintf(format, a...)
	}
	s.stop = true
	s.unlock()
}

// Probe counts that a rare condition of interest was reached.
//
//go:norace
func (s *Sim) Probe(name string) { s.lock(); s.Probes[name]++; s.unlock() }

//go:norace
func (s *Sim) ProbeN(name string, n int) {
	s.lock()
	s.Probes[name] += n
	s.unlock()
}

// Knob is what simgen puts in place of a large literal queue capacity: the shipped value in half of the runs, 1..4 in the others
// (decided by the run's seed and the site, so it is the same on replay and while a schedule is minimised).  Outside a
// simulation it is the shipped value.
//
//go:norace
func Knob(site string, shipped int) int {
	s := active.Load()
	if s == nil {
		return shipped
	}
	h := s.knobSeed
	for i := 0; i < len(site); i++ {
		h = (h ^ uint64(site[i])) * 1099511628211
	}
	h = Mix(h, 0x6b6e6f62)
	if h&1 == 0 {
		return shipped
	}
	v := 1 + int((h>>8)%4)
	s.Probe("knob.small:" + site)
	return v
}

// Probe is the package-level form, usable from simulated devices.
//
//go:norace
func Probe(name string) {
	if s := active.Load(); s != nil {
		s.Probe(name)
	}
}

// Logf appends to the event log (never draws, never reads a real clock).
//
//go:norace
func (s *Sim) Logf(format string, a ...interface{}) {
	msg := fmt.Sprintf(format, a...)
	s.lock()
	s.logN++
	line := fmt.Sprintf("%12d #%d %s", int64(time.Since(s.start)), s.logN, msg)
	h := fnv.New64a()
	h.Write([]byte(line))
	s.eventHash = s.eventHash*1099511628211 ^ h.Sum64()
	if s.Cfg.Trace {
		s.logFull = append(s.logFull, line)
	} else {
		if len(s.logRing) >= s.Cfg.TraceLimit {
			s.logRing = s.logRing[1:]
		}
		s.logRing = append(s.logRing, line)
	}
	s.unlock()
}

// Logf is the package-level form.
//
//go:norace
func Logf(format string, a ...interface{}) {
	if s := active.Load(); s != nil {
		s.Logf(format, a...)
	}
}

// Log returns the retained log lines.
//
//go:norace
func (s *Sim) Log() []string {
	s.lock()
	defer s.unlock()
	if s.Cfg.Trace {
		return append([]string(nil), s.logFull...)
	}
	return append([]string(nil), s.logRing...)
}

// Fingerprint identifies the execution: event log and schedule decisions.
//
//go:norace
func (s *Sim) Fingerprint() string {
	return fmt.Sprintf("%016x-%016x", s.eventHash, s.schedHash)
}

// SchedFingerprint identifies the interleaving only.
//
//go:norace
func (s *Sim) SchedFingerprint() string { return fmt.Sprintf("%016x", s.schedHash) }

// Reason tells why the scheduler loop ended.
//
//go:norace
func (s *Sim) Reason() string { return s.reason }

//go:norace
func (s *Sim) runnable() []*Task {
	var r, q []*Task
	for _, t := range s.tasks {
		if t.state == stParked && !t.dead && !s.frozen[t.Domain] {
			if t.quiet {
				q = append(q, t)
			} else {
				r = append(r, t)
			}
		}
	}
	if len(r) == 0 && len(q) > 0 {
		// everything else is blocked at this instant: release the tasks waiting for quiescence
		for _, t := range q {
			t.quiet = false
		}
		return q
	}
	return r
}

// Quiesce parks the calling task until no other task is runnable at the current
// simulated instant (time does not advance).
//
//go:norace
func Quiesce() {
	s := active.Load()
	if s == nil {
		return
	}
	t := s.Me()
	if t == nil {
		return
	}
	s.lock()
	t.quiet = true
	s.unlock()
	t.park("quiesce")
}

// Describe lists the live tasks and where they are (for reports).
//
//go:norace
func (s *Sim) Describe() string {
	s.lock()
	defer s.unlock()
	var b strings.Builder
	names := []string{"parked", "running", "blocked", "done"}
	for _, t := range s.tasks {
		if t.state == stDone {
			continue
		}
		d := ""
		if t.dead {
			d = " DEAD"
		}
		fmt.Fprintf(&b, "  task %d %s [%s/%s] %s at %s%s\n", t.ID, t.Name, t.Domain, t.Group, names[t.state], t.where, d)
	}
	return b.String()
}

// RelayIdle reports whether no live task of the given domain is runnable (used by boundedness oracles).
//
//go:norace
func (s *Sim) DomainRunnable(domain string) bool {
	s.lock()
	defer s.unlock()
	for _, t := range s.tasks {
		if t.Domain == domain && !t.dead && (t.state == stParked || t.state == stRunning) {
			return true
		}
	}
	return false
}

//go:norace
func (s *Sim) loop() {
	idleNoProgress := 0
	iter := 0
	realStart := nowReal()
	for {
		synctest.Wait()
		beat.Add(1)
		iter++
		if iter&1023 == 0 && s.Cfg.MaxReal > 0 && nowReal()-realStart > int64(s.Cfg.MaxReal) {
			s.lock()
			if s.InfraErr == "" {
				s.InfraErr = fmt.Sprintf("run exceeded its real-time budget of %v (steps=%d sim=%v)", s.Cfg.MaxReal, s.St.Steps, time.Since(s.start))
			}
			s.unlock()
			s.reason = "real-time budget"
			return
		}
		s.lock()
		if s.current != nil {
			// the released task is durably blocked inside a real operation
			s.current.state = stBlocked
			s.current = nil
			s.curGoid.Store(0)
		}
		for _, t := range s.tasks {
			if t.state == stParked && t.parkSeq == 0 {
				s.parkCtr++
				t.parkSeq = s.parkCtr
			}
		}
		run := s.runnable()
		alive := 0
		for _, t := range s.tasks {
			if t.state != stDone && !t.dead {
				alive++
			}
		}
		stop := s.stop
		s.St.SimTime = time.Since(s.start)
		s.unlock()
		if stop {
			return
		}
		if alive == 0 {
			s.reason = "all-done"
			return
		}
		if s.spins > 20 {
			s.reason = "livelock"
			return
		}
		if s.St.Steps >= s.Cfg.MaxSteps {
			s.reason = "max-steps"
			return
		}
		if s.St.SimTime > s.Cfg.Horizon {
			s.reason = "horizon"
			return
		}
		if s.guardOn && (len(run) == 0 || s.St.Steps-s.guardStart > s.guardMax) {
			why := "no task outside the frozen domain can run and the clock is stopped"
			if len(run) != 0 {
				why = fmt.Sprintf("still pending after %d scheduler steps", s.guardMax)
			}
			s.GuardTrip = fmt.Sprintf("a hand-off did not complete while domain %q was frozen: %s\n%s", s.guardDom, why, s.Describe())
			s.reason = "guard"
			return
		}
		if len(run) == 0 {
			// nothing runnable: let simulated time advance to the next timer
			select {
			case <-s.kick:
			default:
			}
			before := time.Now()
			tm := time.NewTimer(s.Cfg.MaxIdle)
			select {
			case <-s.kick:
			case <-tm.C:
			}
			tm.Stop()
			s.St.ClockAdvances++
			if time.Since(before) >= s.Cfg.MaxIdle {
				idleNoProgress++
				if idleNoProgress > 3 {
					s.reason = "quiescent"
					return
				}
			} else {
				idleNoProgress = 0
			}
			continue
		}
		idleNoProgress = 0
		if s.Cfg.TimeRaceP > 0 && !s.guardOn && s.Sched.Bool(s.Cfg.TimeRaceP) {
			// a timer that is due very soon may fire before a runnable task proceeds
			select {
			case <-s.kick:
			default:
			}
			tm := time.NewTimer(s.Cfg.RaceDelta)
			select {
			case <-s.kick:
			case <-tm.C:
			}
			tm.Stop()
			s.St.TimeRaces++
			continue
		}
		// default order: the task that ran last (if it merely yielded), then the longest-waiting one
		sort.Slice(run, func(i, j int) bool {
			if run[i].parkSeq != run[j].parkSeq {
				return run[i].parkSeq < run[j].parkSeq
			}
			return run[i].ID < run[j].ID
		})
		if s.last != nil {
			for i, t := range run {
				if t == s.last {
					copy(run[1:i+1], run[0:i])
					run[0] = t
					break
				}
			}
		}
		idx := 0
		if len(run) > 1 {
			idx = s.Sched.Biased(len(run), 1-s.Cfg.SwitchP)
		}
		t := run[idx]
		if t != s.last {
			s.St.Switches++
		}
		t.budget = 0
		t.spin = 0
		if s.Cfg.PreemptP > 0 {
			t.budget = int64(s.Sched.Biased(s.Cfg.MaxBudget+1, 1-s.Cfg.PreemptP))
		}
		s.St.Steps++
		s.selSeed = s.selSeed*6364136223846793005 + 1442695040888963407
		t.selSeed = s.selSeed | 1
		s.schedHash = (s.schedHash ^ uint64(t.ID+1)) * 1099511628211
		s.schedHash = (s.schedHash ^ uint64(len(t.where))) * 1099511628211
		s.lock()
		t.state = stRunning
		s.current = t
		s.last = t
		s.curGoid.Store(t.goid)
		s.unlock()
		select {
		case <-s.kick:
		default:
		}
		t.wake <- struct{}{}
	}
}

// Result of RunBubble.
type Result struct {
	Sim       *Sim
	EndPanic  string // unexpected panic of the bubble itself
	Leaked    bool   // goroutines remained blocked at the end (expected for relay incarnations)
	RealNanos int64
}

// RunBubble executes driver as the first task of a fresh simulation inside a synctest bubble.
//
//go:norace
func RunBubble(t *testing.T, cfg Config, sched *Choices, mapSeed uint64, driver func(s *Sim)) (res Result) {
	var s *Sim
	t0 := time.Now()
	func() {
		defer func() {
			if r := recover(); r != nil {
				msg := fmt.Sprint(r)
				if strings.Contains(msg, "blocked goroutines") || strings.Contains(msg, "deadlock") {
					res.Leaked = true
				} else {
					res.EndPanic = msg + "\n" + string(debug.Stack())
				}
			}
		}()
		synctest.Test(t, func(t *testing.T) {
			s = &Sim{byGoid: map[uint64]*Task{}, kick: make(chan struct{}, 1), lockc: NewDevCond(), Cfg: cfg, Sched: sched,
				frozen: map[string]bool{}, deadGroups: map[string]bool{}, Probes: map[string]int{}, start: time.Now(), selSeed: mapSeed ^ 0x5851F42D4C957F2D, selSeed0: mapSeed ^ 0x5851F42D4C957F2D, knobSeed: mapSeed, T: t}
			runtime.VerifSetMapSeed(mapSeed | 1)
			runtime.VerifSetSelectSeed(s.selSeed | 1)
			active.Store(s)
			s.spawn("driver", "driver", "harness", func() { driver(s) }) // a real go statement: what the test did before is ordered
			SyncOff()                                                    // the scheduler goroutine: nothing it does orders the tasks as far as the race detector is concerned
			defer SyncOn()
			s.loop()
			s.St.Yields = int(s.ycount)
			active.Store(nil)
			runtime.VerifSetMapSeed(0)
			runtime.VerifSetSelectSeed(0)
		})
	}()
	active.Store(nil)
	runtime.VerifSetMapSeed(0)
	runtime.VerifSetSelectSeed(0)
	if s != nil {
		caseAcquire(s)
	}
	res.Sim = s
	res.RealNanos = int64(time.Since(t0))
	return res
}

// Pool replaces sync.Pool in the instrumented relay code (simgen): same API, but which cached item a Get returns -- the most
// recently put one, or none because "the garbage collector ran" or "the item sits in another P's cache" -- is drawn from the run's
// schedule stream instead of being decided by the OS scheduler and the GC.  Outside a simulation it is a plain LIFO cache.
type Pool struct {
	New   func() interface{}
	mu    sync.Mutex
	items []interface{}
}

//go:norace
func (p *Pool) Get() interface{} {
	Y("pool.get")
	var x interface{}
	p.mu.Lock()
	if n := len(p.items); n > 0 {
		miss := false
		if s := active.Load(); s != nil && s.Sched != nil {
			miss = s.Sched.Bool(0.15)
		}
		if miss {
			Probe("pool.miss_with_cached_items")
		} else {
			x = p.items[n-1]
			p.items[n-1] = nil
			p.items = p.items[:n-1]
			Probe("pool.reuse")
		}
	}
	p.mu.Unlock()
	if x == nil && p.New != nil {
		x = p.New()
	}
	return x
}

//go:norace
func (p *Pool) Put(x interface{}) {
	Y("pool.put")
	if x == nil {
		return
	}
	p.mu.Lock()
	if len(p.items) < 64 {
		p.items = append(p.items, x)
	}
	p.mu.Unlock()
}
