// Package simsarama replaces github.com/Shopify/sarama in route/kafkamdm.go (DESIGN.md 3.6b): configuration, message, error
// and encoder types are the real ones (aliases), so that Config.Validate, the manual partitioner and the compression settings are
// sarama's own; what would open a socket — NewClient, NewSyncProducer, NewSyncProducerFromClient — talks to the scenario's
// scripted cluster instead.  Anything of sarama's surface that is absent here makes a changed kafkamdm.go fail to build (exit 2)
// instead of escaping the simulation.
package simsarama

import (
	"errors"
	"sync"
	"time"

	real "github.com/Shopify/sarama"

	"crsim/simrt"
)

type (
	Config                   = real.Config
	Client                   = real.Client
	SyncProducer             = real.SyncProducer
	ProducerMessage          = real.ProducerMessage
	ProducerError            = real.ProducerError
	ProducerErrors           = real.ProducerErrors
	Encoder                  = real.Encoder
	ByteEncoder              = real.ByteEncoder
	StringEncoder            = real.StringEncoder
	CompressionCodec         = real.CompressionCodec
	RequiredAcks             = real.RequiredAcks
	SCRAMClient              = real.SCRAMClient
	SASLMechanism            = real.SASLMechanism
	Partitioner              = real.Partitioner
	PartitionerConstructor   = real.PartitionerConstructor
	KafkaVersion             = real.KafkaVersion
	KError                   = real.KError
	ConfigurationError       = real.ConfigurationError
	RecordHeader             = real.RecordHeader
	Broker                   = real.Broker
	InitProducerIDResponse   = real.InitProducerIDResponse
)

const (
	NoResponse   = real.NoResponse
	WaitForLocal = real.WaitForLocal
	WaitForAll   = real.WaitForAll

	CompressionNone   = real.CompressionNone
	CompressionGZIP   = real.CompressionGZIP
	CompressionSnappy = real.CompressionSnappy
	CompressionLZ4    = real.CompressionLZ4
	CompressionZSTD   = real.CompressionZSTD

	SASLTypeOAuth       = real.SASLTypeOAuth
	SASLTypePlaintext   = real.SASLTypePlaintext
	SASLTypeSCRAMSHA256 = real.SASLTypeSCRAMSHA256
	SASLTypeSCRAMSHA512 = real.SASLTypeSCRAMSHA512
)

var (
	NewConfig             = real.NewConfig
	NewManualPartitioner  = real.NewManualPartitioner
	NewHashPartitioner    = real.NewHashPartitioner
	NewRandomPartitioner  = real.NewRandomPartitioner
	ErrOutOfBrokers       = real.ErrOutOfBrokers
	ErrClosedClient       = real.ErrClosedClient
	ErrNotConnected       = real.ErrNotConnected
	ErrShuttingDown       = real.ErrShuttingDown
	ErrMessageTooLarge    = real.ErrMessageTooLarge
	ErrInvalidPartition   = real.ErrInvalidPartition
	ErrUnknownTopicOrPartition = real.ErrUnknownTopicOrPartition
	ErrNotLeaderForPartition   = real.ErrNotLeaderForPartition
	ErrRequestTimedOut         = real.ErrRequestTimedOut
	ErrLeaderNotAvailable      = real.ErrLeaderNotAvailable
)

// Cluster is the scripted remote end.  Every method is called by a relay task that holds the baton; it may sleep on the fake clock
// (simrt.Sleep) or wait on a device condition before it answers.
type Cluster interface {
	// Connect is NewClient: nil, ErrOutOfBrokers, or any other error.
	Connect(addrs []string, conf *Config) error
	Partitions(topic string) ([]int32, error)
	// Send is SyncProducer.SendMessages: nil when every message was stored, otherwise ProducerErrors naming exactly the messages
	// that were not (the others were stored).
	Send(msgs []*ProducerMessage) error
	// Closed is told about Close calls ("client" / "producer").
	Closed(what string)
}

var (
	mu      sync.Mutex
	cluster Cluster
)

// Use installs the cluster every client talks to.
//
//go:norace
func Use(c Cluster) { lk(&mu); cluster = c; ul(&mu) }

//go:norace
func cur() Cluster { lk(&mu); c := cluster; ul(&mu); return c }

//go:norace
func lk(m *sync.Mutex) { simrt.SyncOff(); m.Lock() }

//go:norace
func ul(m *sync.Mutex) { m.Unlock(); simrt.SyncOn() }

type client struct {
	real.Client // nil: any method the stub does not implement panics with a nil dereference, which the harness reports as infrastructure
	conf        *Config
	c           Cluster
	closed      bool
}

//go:norace
func NewClient(addrs []string, conf *Config) (Client, error) {
	simrt.Yield("simsarama.newclient")
	c := cur()
	if c == nil {
		return nil, errors.New("simsarama: no cluster")
	}
	if conf == nil {
		conf = NewConfig()
	}
	if err := conf.Validate(); err != nil {
		return nil, err
	}
	if len(addrs) < 1 {
		return nil, ConfigurationError("You must provide at least one broker address")
	}
	err := c.Connect(addrs, conf)
	simrt.Yield("simsarama.newclient.done")
	if err != nil {
		return nil, err
	}
	return &client{conf: conf, c: c}, nil
}

//go:norace
func (c *client) Config() *Config { return c.conf }

//go:norace
func (c *client) Partitions(topic string) ([]int32, error) {
	simrt.Yield("simsarama.partitions")
	if c.closed {
		return nil, ErrClosedClient
	}
	p, err := c.c.Partitions(topic)
	simrt.Yield("simsarama.partitions.done")
	return p, err
}

//go:norace
func (c *client) WritablePartitions(topic string) ([]int32, error) { return c.Partitions(topic) }

//go:norace
func (c *client) Topics() ([]string, error) { return nil, nil }

//go:norace
func (c *client) RefreshMetadata(topics ...string) error { return nil }

//go:norace
func (c *client) Close() error {
	simrt.Yield("simsarama.client.close")
	if c.closed {
		return ErrClosedClient
	}
	c.closed = true
	c.c.Closed("client")
	return nil
}

//go:norace
func (c *client) Closed() bool { return c.closed }

type producer struct {
	cl     *client
	closed bool
}

//go:norace
func NewSyncProducerFromClient(cl Client) (SyncProducer, error) {
	simrt.Yield("simsarama.newproducer")
	c, ok := cl.(*client)
	if !ok {
		return nil, errors.New("simsarama: foreign client")
	}
	if c.closed {
		return nil, ErrClosedClient
	}
	// as the real constructor: a sync producer needs both Return flags
	if !c.conf.Producer.Return.Errors {
		return nil, ConfigurationError("Producer.Return.Errors must be true to be used in a SyncProducer")
	}
	if !c.conf.Producer.Return.Successes {
		return nil, ConfigurationError("Producer.Return.Successes must be true to be used in a SyncProducer")
	}
	return &producer{cl: c}, nil
}

//go:norace
func NewSyncProducer(addrs []string, conf *Config) (SyncProducer, error) {
	cl, err := NewClient(addrs, conf)
	if err != nil {
		return nil, err
	}
	return NewSyncProducerFromClient(cl)
}

//go:norace
func (p *producer) SendMessages(msgs []*ProducerMessage) error {
	simrt.Yield("simsarama.send")
	if p.closed || p.cl.closed {
		errs := make(ProducerErrors, 0, len(msgs))
		for _, m := range msgs {
			errs = append(errs, &ProducerError{Msg: m, Err: ErrShuttingDown})
		}
		return errs
	}
	err := p.cl.c.Send(msgs)
	simrt.Yield("simsarama.send.done")
	return err
}

//go:norace
func (p *producer) SendMessage(msg *ProducerMessage) (int32, int64, error) {
	err := p.SendMessages([]*ProducerMessage{msg})
	if err != nil {
		if pe, ok := err.(ProducerErrors); ok && len(pe) > 0 {
			return -1, -1, pe[0].Err
		}
		return -1, -1, err
	}
	return msg.Partition, msg.Offset, nil
}

//go:norace
func (p *producer) Close() error {
	simrt.Yield("simsarama.producer.close")
	p.closed = true
	p.cl.c.Closed("producer")
	return nil
}

// Sleep lets a cluster implementation spend simulated time inside a call.
//
//go:norace
func Sleep(d time.Duration) { simrt.Sleep(d) }
