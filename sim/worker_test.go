package crsim

import (
	"bufio"
	"encoding/json"
	"flag"
	"fmt"
	"io/ioutil"
	stdlog "log"
	mathrand "math/rand"
	"os"
	"runtime"
	"strconv"
	"strings"
	"testing"
	"time"

	"crsim/simrt"

	metrics "github.com/Dieterbe/go-metrics"
	log "github.com/sirupsen/logrus"
)

var (
	fProp     = flag.String("prop", "", "property id")
	fTier     = flag.String("tier", "quick", "quick|thorough")
	fSeeds    = flag.String("seeds", "", "lo:hi seed range (run index mixed with -base)")
	fBase     = flag.Uint64("base", 1, "VERIF_SEED")
	fOut      = flag.String("out", "", "jsonl output file")
	fReplay   = flag.String("replay", "", "replay file to execute")
	fMinimise = flag.Bool("minimise", false, "minimise the replay file (writes <file>.min.json)")
	fTrace    = flag.Bool("trace", false, "keep and print the full event log")
	fRepoHash = flag.String("repohash", "", "hash of the instrumented tree (recorded in replay files)")
	fReplays  = flag.String("replaydir", "", "directory for replay files")
	fMaxViol  = flag.Int("maxviol", 2, "replay files written per violation class and worker")
	fSub      = flag.String("params", "", "k=v,k=v case parameters")
)

func TestMain(m *testing.M) {
	flag.Parse()
	// the go-metrics meter arbiter must not become a bubbled goroutine
	metrics.NewMeter()
	// math/rand sets its global generator up on first use (GODEBUG lookup, maps): that must not draw from the first case's task
	// state, or the first case of a process would differ from the same case later in a batch (jittered grafanaNet backoff)
	mathrand.Float64()
	raceLogInit()
	log.SetOutput(ioutil.Discard)
	log.SetLevel(log.ErrorLevel)
	log.StandardLogger().ExitFunc = func(code int) { simrt.Exit(code) }
	stdlog.SetOutput(ioutil.Discard)
	if *fTrace && os.Getenv("CRSIM_RELAYLOG") != "" {
		// debugging aid: the relay's own trace log goes into the simulation's event log
		log.SetLevel(log.TraceLevel)
		log.SetOutput(simLogWriter{})
		log.SetFormatter(&log.TextFormatter{DisableTimestamp: true, DisableColors: true})
		stdlog.SetOutput(simLogWriter{})
		stdlog.SetFlags(0)
	}
	// real-time watchdog: the scheduler must keep making progress
	go func() {
		last, lastAt := simrt.Heartbeat(), time.Now()
		for {
			time.Sleep(2 * time.Second)
			h := simrt.Heartbeat()
			if h != last || simrt.Active() == nil {
				last, lastAt = h, time.Now()
				continue
			}
			if time.Since(lastAt) > time.Duration(envInt("CRSIM_WATCHDOG_S", 120))*time.Second {
				buf := make([]byte, 1<<20)
				n := runtime.Stack(buf, true)
				fmt.Fprintf(os.Stderr, "crsim watchdog: scheduler made no progress; goroutines:\n%s\n", buf[:n])
				if s := simrt.Active(); s != nil {
					fmt.Fprintf(os.Stderr, "tasks:\n%s\n", s.Describe())
				}
				os.Exit(2)
			}
		}
	}()
	os.Exit(m.Run())
}

func parseParams(s string) map[string]int {
	if s == "" {
		return nil
	}
	m := map[string]int{}
	for _, kv := range strings.Split(s, ",") {
		p := strings.SplitN(kv, "=", 2)
		if len(p) == 2 {
			n, _ := strconv.Atoi(p[1])
			m[p[0]] = n
		}
	}
	return m
}

// TestWorker is the entry point used by bin/check: it runs a range of cases, or a replay.
func TestWorker(t *testing.T) {
	if *fReplay != "" {
		r, err := ReadReplay(*fReplay)
		if err != nil {
			fmt.Println("INFRA cannot read replay:", err)
			os.Exit(2)
		}
		if r.Race && !simrt.RaceBuild {
			fmt.Println("REPLAY-INFRA this replay was recorded by the race-detector build; bin/check --replay selects it")
			return
		}
		if *fMinimise {
			min, attempts := Minimise(t, r, envInt("CRSIM_MIN_ATTEMPTS", 400), time.Duration(envInt("CRSIM_MIN_SECONDS", 60))*time.Second)
			path := strings.TrimSuffix(*fReplay, ".json") + ".min.json"
			if err := WriteJSON(path, min); err != nil {
				fmt.Println("INFRA", err)
				os.Exit(2)
			}
			fmt.Printf("MINIMISED attempts=%d gen=%d->%d sched=%d->%d file=%s\n", attempts, len(r.Gen), len(min.Gen), len(r.Sched), len(min.Sched), path)
			return
		}
		o := RunCase(t, r.Case(), *fTrace)
		b, _ := json.Marshal(o)
		if *fOut != "" {
			ioutil.WriteFile(*fOut, append(b, '\n'), 0644)
		}
		if *fTrace {
			for _, l := range o.Log {
				fmt.Println(l)
			}
			fmt.Println(o.TaskDump)
		}
		switch {
		case o.Infra != "":
			fmt.Println("REPLAY-INFRA", o.Infra)
		case o.Class == "":
			fmt.Println("REPLAY-NOVIOLATION fp=" + o.Fingerprint)
		case o.Class == r.Class && (r.Fingerprint == "" || o.Fingerprint == r.Fingerprint):
			fmt.Printf("REPLAY-REPRODUCED class=%s fp=%s msg=%s\n", o.Class, o.Fingerprint, o.Msg)
		case o.Class == r.Class:
			fmt.Printf("REPLAY-SAMECLASS class=%s fp=%s want=%s msg=%s\n", o.Class, o.Fingerprint, r.Fingerprint, o.Msg)
		default:
			fmt.Printf("REPLAY-OTHERCLASS class=%s want=%s msg=%s\n", o.Class, r.Class, o.Msg)
		}
		return
	}
	if *fProp == "" {
		t.Skip("no -prop given")
	}
	var lo, hi int
	fmt.Sscanf(*fSeeds, "%d:%d", &lo, &hi)
	var w *bufio.Writer
	if *fOut != "" {
		f, err := os.Create(*fOut)
		if err != nil {
			fmt.Println("INFRA", err)
			os.Exit(2)
		}
		defer f.Close()
		w = bufio.NewWriter(f)
		defer w.Flush()
	}
	nviol := map[string]int{}
	emit := func(o *Outcome) {
		if o.Class != "" && *fReplays != "" && nviol[o.Class] < *fMaxViol {
			nviol[o.Class]++
			name := fmt.Sprintf("%s/%s-%d", *fReplays, o.Case.Prop, o.Case.Seed)
			for k, v := range o.Case.Params {
				name += fmt.Sprintf("-%s%d", k, v)
			}
			name += ".json"
			if err := WriteJSON(name, o.ToReplay(*fRepoHash)); err == nil {
				o.Sample = map[string]interface{}{"replay": name, "plan": o.Sample}
			}
		}
		if !*fTrace {
			o.Log, o.TaskDump = nil, ""
		}
		b, err := json.Marshal(o)
		if err != nil {
			b, _ = json.Marshal(&Outcome{Case: o.Case, Infra: "cannot marshal outcome: " + err.Error()})
		}
		if w != nil {
			w.Write(b)
			w.WriteByte('\n')
		} else {
			fmt.Println(string(b))
		}
	}
	for i := lo; i < hi; i++ {
		c := Case{Prop: *fProp, Tier: *fTier, Seed: simrt.Mix(*fBase, uint64(i)), Params: parseParams(*fSub)}
		o := RunCase(t, c, *fTrace)
		if strings.Contains(o.Infra, "real-time budget") {
			// the machine was busy: the same case once more (it is the same execution) before it counts as trouble
			o = RunCase(t, c, *fTrace)
		}
		sub := o.SubList
		emit(o)
		for _, b := range sub {
			c2 := c
			c2.Params = map[string]int{"crash": b}
			emit(RunCase(t, c2, false))
		}
	}
}

type simLogWriter struct{}

func (simLogWriter) Write(p []byte) (int, error) {
	simrt.Logf("relay: %s", strings.TrimSpace(string(p)))
	return len(p), nil
}
