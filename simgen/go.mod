module simgen

go 1.26
