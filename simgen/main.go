// simgen instruments a copy of carbon-relay-ng for the crsim simulator (DESIGN.md 3.1).
//
//	simgen [-noredirect] <repo> <out>
//
// It copies the non-test Go files of the selected packages of <repo> to <out>
// (plus go.mod, and _test.go files unchanged) and rewrites them:
//
//   - simrt.Y("file:line") before every statement of every function body;
//   - go f(a, b)  ->  { f0, t0, t1 := f, a, b; simrt.Go("file:line", func() { f0(t0, t1) }) };
//   - x.Lock()/RLock()/Unlock()/RUnlock() (also deferred) -> simrt.Lock(x.Lock, x.TryLock) / simrt.Unlock(x.Unlock);
//   - per-file import redirects net -> crsim/simnet, os and io/ioutil -> crsim/simos, net/http -> crsim/simhttp;
//   - cmd/carbon-relay-ng becomes package crngmain without main() and usage(), so that the config-file
//     helpers are callable.
//
// Anything it does not understand makes it fail with exit 2 rather than guess.
package main

import (
	"bytes"
	"fmt"
	"go/ast"
	"go/format"
	"go/parser"
	"go/token"
	"io/ioutil"
	"os"
	"path/filepath"
	"sort"
	"strconv"
	"strings"
)

// packages (directories relative to the repo root) that are instrumented and copied
var pkgDirs = []string{
	"aggregator", "badmetrics", "cfg", "clock", "destination", "imperatives", "input", "input/manager",
	"matcher", "nsqd", "persister", "rewriter", "route", "stats", "statsmt", "table", "telnet", "ui/telnet",
	"util", "validate", "go-whisper", "pkg/mt-conf", "logger", "pkg/test",
}

const mainDir = "cmd/carbon-relay-ng"

// import redirects: file (relative) -> stdlib path -> replacement path
var redirects = map[string]map[string]string{
	"destination/conn.go":   {"net": "crsim/simnet", "os": "crsim/simos"},
	"input/listen.go":       {"net": "crsim/simnet"},
	"input/timeout_conn.go": {"net": "crsim/simnet"},
	"telnet/telnet.go":      {"net": "crsim/simnet"},
	"ui/telnet/telnet.go":   {"net": "crsim/simnet"},
	"nsqd/diskqueue.go":     {"os": "crsim/simos"},
	"route/grafananet.go":   {"net": "crsim/simnet", "net/http": "crsim/simhttp"},
	"route/kafkamdm.go":     {"github.com/Shopify/sarama": "crsim/simsarama"},
	mainDir + "/carbon-relay-ng.go": {"os": "crsim/simos", "io/ioutil": "crsim/simos/ioutil"},
}

var noRedirect bool
var stats = map[string]int{}

func die(format string, a ...interface{}) {
	fmt.Fprintf(os.Stderr, "simgen: "+format+"\n", a...)
	os.Exit(2)
}

func main() {
	args := os.Args[1:]
	if len(args) > 0 && args[0] == "-noredirect" {
		noRedirect = true
		args = args[1:]
	}
	if len(args) != 2 {
		die("usage: simgen [-noredirect] <repo> <out>")
	}
	repo, out := args[0], args[1]
	for _, f := range []string{"go.mod", "go.sum"} {
		b, err := ioutil.ReadFile(filepath.Join(repo, f))
		if err != nil {
			die("%v", err)
		}
		must(os.MkdirAll(out, 0755))
		must(ioutil.WriteFile(filepath.Join(out, f), b, 0644))
	}
	for _, d := range pkgDirs {
		ents, err := ioutil.ReadDir(filepath.Join(repo, d))
		if err != nil {
			die("%v", err)
		}
		for _, e := range ents {
			if e.IsDir() {
				continue
			}
			rel := filepath.Join(d, e.Name())
			src := filepath.Join(repo, rel)
			dst := filepath.Join(out, rel)
			must(os.MkdirAll(filepath.Dir(dst), 0755))
			b, err := ioutil.ReadFile(src)
			if err != nil {
				die("%v", err)
			}
			if !strings.HasSuffix(e.Name(), ".go") || strings.HasSuffix(e.Name(), "_test.go") {
				must(ioutil.WriteFile(dst, b, 0644))
				continue
			}
			must(ioutil.WriteFile(dst, instrument(rel, b, nil), 0644))
		}
	}
	// package main -> crngmain with only the config helpers
	rel := mainDir + "/carbon-relay-ng.go"
	b, err := ioutil.ReadFile(filepath.Join(repo, rel))
	if err != nil {
		die("%v", err)
	}
	dst := filepath.Join(out, "crngmain", "crngmain.go")
	must(os.MkdirAll(filepath.Dir(dst), 0755))
	must(ioutil.WriteFile(dst, instrument(rel, b, []string{"main", "usage"}), 0644))
	var keys []string
	for k := range stats {
		keys = append(keys, k)
	}
	sort.Strings(keys)
	var sb strings.Builder
	for _, k := range keys {
		fmt.Fprintf(&sb, "%s=%d ", k, stats[k])
	}
	fmt.Println("simgen:", sb.String())
}

func must(err error) {
	if err != nil {
		die("%v", err)
	}
}

// knobArgs: calls whose large integer literal arguments are queue capacities (file -> callee names)
var knobArgs = map[string]map[string]bool{
	"aggregator/aggregator.go": {"NewMocked": true},
}

type rewriter struct {
	rel  string
	fset *token.FileSet
}

func instrument(rel string, src []byte, keepFuncs []string) []byte {
	fset := token.NewFileSet()
	f, err := parser.ParseFile(fset, rel, src, parser.SkipObjectResolution)
	if err != nil {
		die("parse %s: %v", rel, err)
	}
	rw := &rewriter{rel: rel, fset: fset}

	if keepFuncs != nil {
		// package main becomes the importable package crngmain: everything is kept except the
		// functions named in keepFuncs (main, usage), so the config helpers stay callable
		drop := map[string]bool{}
		for _, k := range keepFuncs {
			drop[k] = true
		}
		var decls []ast.Decl
		for _, d := range f.Decls {
			if fd, ok := d.(*ast.FuncDecl); ok && fd.Recv == nil && drop[fd.Name.Name] {
				delete(drop, fd.Name.Name)
				continue
			}
			decls = append(decls, d)
		}
		if len(drop) != 0 {
			die("%s: functions not found: %v", rel, drop)
		}
		f.Decls = decls
		f.Name.Name = "crngmain"
	}

	// tuning knobs: a large literal channel capacity (badmetrics' 100000-record queue) becomes simrt.Knob(site, n), which is n in
	// half of the runs and a handful in the others, so that the "queue is full" path is reachable with a small workload
	ast.Inspect(f, func(n ast.Node) bool {
		ce, ok := n.(*ast.CallExpr)
		if !ok || len(ce.Args) != 2 {
			return true
		}
		if id, ok := ce.Fun.(*ast.Ident); !ok || id.Name != "make" {
			return true
		}
		if _, ok := ce.Args[0].(*ast.ChanType); !ok {
			return true
		}
		lit, ok := ce.Args[1].(*ast.BasicLit)
		if !ok || lit.Kind != token.INT {
			return true
		}
		if v, err := strconv.Atoi(lit.Value); err != nil || v < 1000 {
			return true
		}
		site := fmt.Sprintf("%s:%d", rel, fset.Position(ce.Pos()).Line)
		ce.Args[1] = &ast.CallExpr{Fun: &ast.SelectorExpr{X: ast.NewIdent("simrt"), Sel: ast.NewIdent("Knob")},
			Args: []ast.Expr{&ast.BasicLit{Kind: token.STRING, Value: strconv.Quote(site)}, lit}}
		stats["knobs"]++
		return true
	})

	// ... and the queue sizes that are handed down as a literal argument (aggregator.New -> NewMocked(..., 2000, ...))
	if callees := knobArgs[rel]; callees != nil {
		ast.Inspect(f, func(n ast.Node) bool {
			ce, ok := n.(*ast.CallExpr)
			if !ok {
				return true
			}
			id, ok := ce.Fun.(*ast.Ident)
			if !ok || !callees[id.Name] {
				return true
			}
			for i, a := range ce.Args {
				lit, ok := a.(*ast.BasicLit)
				if !ok || lit.Kind != token.INT {
					continue
				}
				if v, err := strconv.Atoi(lit.Value); err != nil || v < 1000 {
					continue
				}
				site := fmt.Sprintf("%s:%d", rel, fset.Position(ce.Pos()).Line)
				ce.Args[i] = &ast.CallExpr{Fun: &ast.SelectorExpr{X: ast.NewIdent("simrt"), Sel: ast.NewIdent("Knob")},
					Args: []ast.Expr{&ast.BasicLit{Kind: token.STRING, Value: strconv.Quote(site)}, lit}}
				stats["knobs"]++
			}
			return true
		})
	}

	// sync.Pool hands out whatever the goroutine's current P has cached and forgets everything at a garbage collection: which
	// buffer a Get returns is decided by the OS scheduler and the GC.  simrt.Pool has the same API and lets the run's seed decide.
	pools, syncOther := 0, 0
	ast.Inspect(f, func(n ast.Node) bool {
		se, ok := n.(*ast.SelectorExpr)
		if !ok {
			return true
		}
		if id, ok := se.X.(*ast.Ident); ok && id.Name == "sync" && id.Obj == nil {
			if se.Sel.Name == "Pool" {
				id.Name = "simrt"
				pools++
				stats["pools"]++
			} else {
				syncOther++
			}
		}
		return true
	})
	if pools > 0 && syncOther == 0 {
		// keep the file's sync import in use
		f.Decls = append(f.Decls, &ast.GenDecl{Tok: token.VAR, Specs: []ast.Spec{&ast.ValueSpec{Names: []*ast.Ident{ast.NewIdent("_")},
			Type: &ast.SelectorExpr{X: ast.NewIdent("sync"), Sel: ast.NewIdent("Locker")}}}})
	}

	// collect every function body first; statement recursion never enters expressions,
	// so each body is rewritten exactly once
	var bodies []*ast.BlockStmt
	ast.Inspect(f, func(n ast.Node) bool {
		switch x := n.(type) {
		case *ast.FuncDecl:
			if x.Body != nil {
				bodies = append(bodies, x.Body)
			}
		case *ast.FuncLit:
			bodies = append(bodies, x.Body)
		}
		return true
	})
	for _, b := range bodies {
		b.List = rw.stmtList(b.List)
	}

	// imports
	usedNames := map[string]bool{}
	ast.Inspect(f, func(n ast.Node) bool {
		if se, ok := n.(*ast.SelectorExpr); ok {
			if id, ok := se.X.(*ast.Ident); ok {
				usedNames[id.Name] = true
			}
		}
		return true
	})
	red := redirects[rel]
	if noRedirect {
		red = nil
	}
	seenRed := map[string]bool{}
	for _, d := range f.Decls {
		gd, ok := d.(*ast.GenDecl)
		if !ok || gd.Tok != token.IMPORT {
			continue
		}
		var specs []ast.Spec
		for _, sp := range gd.Specs {
			is := sp.(*ast.ImportSpec)
			path, _ := strconv.Unquote(is.Path.Value)
			name := filepath.Base(path)
			if is.Name != nil {
				name = is.Name.Name
			}
			if keepFuncs != nil && name != "_" && !usedNames[name] {
				continue // extracted file: drop imports that are no longer used
			}
			if keepFuncs != nil && name == "_" {
				continue
			}
			if to, ok := red[path]; ok {
				seenRed[path] = true
				is.Name = ast.NewIdent(name)
				is.Path = &ast.BasicLit{Kind: token.STRING, Value: strconv.Quote(to)}
				is.EndPos = 0
				stats["redirects"]++
			}
			specs = append(specs, is)
		}
		gd.Specs = specs
	}
	for p := range red {
		if !seenRed[p] && keepFuncs == nil {
			// the file no longer imports the package (a change dropped its last use): nothing to redirect
			stats["redirects_absent"]++
		}
	}
	// add the simrt import as its own declaration right after the package clause
	imp := &ast.GenDecl{Tok: token.IMPORT, Specs: []ast.Spec{&ast.ImportSpec{Name: ast.NewIdent("simrt"), Path: &ast.BasicLit{Kind: token.STRING, Value: `"crsim/simrt"`}}}}
	var decls []ast.Decl
	decls = append(decls, imp)
	for _, d := range f.Decls {
		if gd, ok := d.(*ast.GenDecl); ok && gd.Tok == token.IMPORT && len(gd.Specs) == 0 {
			continue
		}
		decls = append(decls, d)
	}
	f.Decls = decls
	f.Comments = nil // comments are dropped: free-floating comments confuse the printer after rewriting

	var buf bytes.Buffer
	// print declarations one by one without position information artifacts
	stripPos(f)
	if err := format.Node(&buf, token.NewFileSet(), f); err != nil {
		die("print %s: %v", rel, err)
	}
	res := buf.Bytes()
	if bytes.Count(res, []byte("simrt.")) == 0 {
		// file without any function body: the import would be unused
		res = bytes.Replace(res, []byte("import simrt \"crsim/simrt\"\n"), []byte("import _ \"crsim/simrt\"\n"), 1)
	}
	if _, err := parser.ParseFile(token.NewFileSet(), rel, res, 0); err != nil {
		die("instrumented %s does not parse: %v", rel, err)
	}
	return res
}

// stripPos removes position information so that the printer lays the code out afresh.
func stripPos(f *ast.File) {
	// go/printer uses positions only for line breaks and comments; with comments gone,
	// zeroing is not required for correctness. Kept as a hook.
}

func (rw *rewriter) site(n ast.Node) string {
	p := rw.fset.Position(n.Pos())
	return fmt.Sprintf("%s:%d", rw.rel, p.Line)
}

func (rw *rewriter) yStmt(n ast.Node) ast.Stmt {
	stats["yields"]++
	return &ast.ExprStmt{X: &ast.CallExpr{
		Fun:  &ast.SelectorExpr{X: ast.NewIdent("simrt"), Sel: ast.NewIdent("Y")},
		Args: []ast.Expr{&ast.BasicLit{Kind: token.STRING, Value: strconv.Quote(rw.site(n))}},
	}}
}

func (rw *rewriter) stmtList(list []ast.Stmt) []ast.Stmt {
	out := make([]ast.Stmt, 0, 2*len(list))
	for _, s := range list {
		y := rw.yStmt(s)
		out = append(out, y, rw.stmt(s))
	}
	return out
}

func (rw *rewriter) block(b *ast.BlockStmt) {
	if b != nil {
		b.List = rw.stmtList(b.List)
	}
}

var lockMethods = map[string][2]string{
	"Lock":    {"Lock", "TryLock"},
	"RLock":   {"RLock", "TryRLock"},
	"Unlock":  {"Unlock", ""},
	"RUnlock": {"RUnlock", ""},
}

// lockCall rewrites x.Lock() etc.; returns nil if call is not of that shape.
func (rw *rewriter) lockCall(call *ast.CallExpr) *ast.CallExpr {
	se, ok := call.Fun.(*ast.SelectorExpr)
	if !ok || len(call.Args) != 0 {
		return nil
	}
	m, ok := lockMethods[se.Sel.Name]
	if !ok {
		return nil
	}
	stats["locks"]++
	if m[1] != "" {
		return &ast.CallExpr{Fun: &ast.SelectorExpr{X: ast.NewIdent("simrt"), Sel: ast.NewIdent("Lock")},
			Args: []ast.Expr{&ast.SelectorExpr{X: se.X, Sel: ast.NewIdent(m[0])}, &ast.SelectorExpr{X: se.X, Sel: ast.NewIdent(m[1])}}}
	}
	return &ast.CallExpr{Fun: &ast.SelectorExpr{X: ast.NewIdent("simrt"), Sel: ast.NewIdent("Unlock")},
		Args: []ast.Expr{&ast.SelectorExpr{X: se.X, Sel: ast.NewIdent(m[0])}}}
}

func (rw *rewriter) stmt(s ast.Stmt) ast.Stmt {
	switch x := s.(type) {
	case *ast.BlockStmt:
		rw.block(x)
	case *ast.IfStmt:
		rw.block(x.Body)
		if x.Else != nil {
			x.Else = rw.stmt(x.Else)
		}
	case *ast.ForStmt:
		rw.block(x.Body)
	case *ast.RangeStmt:
		rw.block(x.Body)
	case *ast.SwitchStmt:
		rw.clauses(x.Body)
	case *ast.TypeSwitchStmt:
		rw.clauses(x.Body)
	case *ast.SelectStmt:
		for _, c := range x.Body.List {
			cc := c.(*ast.CommClause)
			if len(cc.Body) == 0 {
				cc.Body = []ast.Stmt{rw.yStmt(cc)}
			} else {
				cc.Body = rw.stmtList(cc.Body)
			}
		}
	case *ast.LabeledStmt:
		x.Stmt = rw.stmt(x.Stmt)
	case *ast.ExprStmt:
		if call, ok := x.X.(*ast.CallExpr); ok {
			if lc := rw.lockCall(call); lc != nil {
				x.X = lc
			}
		}
	case *ast.DeferStmt:
		if lc := rw.lockCall(x.Call); lc != nil {
			x.Call = lc
		}
	case *ast.GoStmt:
		return rw.goStmt(x)
	case *ast.AssignStmt, *ast.ReturnStmt, *ast.DeclStmt, *ast.SendStmt, *ast.IncDecStmt, *ast.BranchStmt, *ast.EmptyStmt:
	default:
		die("%s: unsupported statement %T", rw.site(s), s)
	}
	return s
}

func (rw *rewriter) clauses(b *ast.BlockStmt) {
	for _, c := range b.List {
		cc := c.(*ast.CaseClause)
		cc.Body = rw.stmtList(cc.Body)
	}
}

func (rw *rewriter) goStmt(g *ast.GoStmt) ast.Stmt {
	stats["go"]++
	call := g.Call
	var lhs []ast.Expr
	var rhs []ast.Expr
	fn := ast.NewIdent("verifF")
	lhs = append(lhs, fn)
	rhs = append(rhs, call.Fun)
	var args []ast.Expr
	for i, a := range call.Args {
		switch lit := a.(type) {
		case *ast.BasicLit:
			args = append(args, lit)
			continue
		case *ast.Ident:
			if lit.Name == "nil" || lit.Name == "true" || lit.Name == "false" {
				args = append(args, lit)
				continue
			}
		}
		id := ast.NewIdent("verifA" + strconv.Itoa(i))
		lhs = append(lhs, id)
		rhs = append(rhs, a)
		args = append(args, id)
	}
	inner := &ast.CallExpr{Fun: fn, Args: args, Ellipsis: call.Ellipsis}
	if call.Ellipsis != token.NoPos {
		inner.Ellipsis = 1
	}
	wrapper := &ast.FuncLit{Type: &ast.FuncType{Params: &ast.FieldList{}}, Body: &ast.BlockStmt{List: []ast.Stmt{&ast.ExprStmt{X: inner}}}}
	goCall := &ast.ExprStmt{X: &ast.CallExpr{
		Fun:  &ast.SelectorExpr{X: ast.NewIdent("simrt"), Sel: ast.NewIdent("Go")},
		Args: []ast.Expr{&ast.BasicLit{Kind: token.STRING, Value: strconv.Quote(rw.site(g))}, wrapper},
	}}
	return &ast.BlockStmt{List: []ast.Stmt{
		&ast.AssignStmt{Lhs: lhs, Tok: token.DEFINE, Rhs: rhs},
		goCall,
	}}
}
